//! C12 — CKKS encoding is the rounded scaled canonical embedding on every path.
//!
//! The real `CKKSEncoder` is driven over chains of 1..19 primes of 20..60 bits, every data level,
//! all five entry points in destination and `_new` form, with values of either sign, purely
//! imaginary / complex values, magnitudes 0..2^60 and scales 2^0..2^(log q - 2) chosen so that the
//! scaled magnitudes land below 64 bits, between 64 and 128 bits and above 128 bits.
//!
//! Oracle (independent of heathcliff::util): every RNS component of the plaintext is taken out of
//! the NTT domain with the O(N^2) definition `refm::intt_ref` (root = the level's
//! `small_ntt_tables()[i].root()`), the residues are CRT-lifted to ONE centered big-integer
//! coefficient vector c (re-reduced modulo each prime to check every component), and c is compared
//! with the expected real coefficients:
//!   * vectors / single complex: r = scale * he::embed_encode(values) (reference inverse canonical
//!     embedding, library slot order), |c_j - r_j| <= 1/2 + eps,
//!       eps = scale * max|v| * 2^-52 * (N/2 + 8 log2 N + 32)
//!     derived as: library FFT = log2 N butterfly stages, each doubles the accumulated error and
//!     adds <= 6u * (magnitude <= 2^stage * max|v|) (complex add u, complex mul 3u, root 2u,
//!     u = 2^-53), i.e. <= (6 log2 N + 2) u after the final multiplication by scale/N; reference:
//!     N/2 terms of error <= 17u max|v| (table angle 12.6u, cos/sin u, product 3u) summed naively
//!     (N/2 additions of relative error u on partial sums <= N/2 max|v|), times 2/N:
//!     <= (N/4 + 9) * 2^-52 max|v|; one more u for scale * e_j and for BigI -> f64. Everything is
//!     rounded up to the closed form above.
//!   * single real / integer: constant polynomial, c_0 within 1/2 of value*scale (exactly 1/2 when
//!     the product is exact and below 2^53, relative 2^-51 otherwise), all other coefficients 0;
//!   * coefficient lists: c_i within 1/2 (same rule) of v_i*scale, the rest 0.
//! decode / decode_polynomial must return the inputs within (sum of the coefficient tolerances)/scale
//! plus he::ckks_fp_tolerance (the library decoder's documented double-precision term).
//!
//! Refusals. Documented thresholds (ckks_encoder.rs): scale <= 0 or log2(scale)+1 >= bitlen(q) is
//! refused; "values too large": bit count of the largest scaled coefficient *plus one sign bit*
//! >= bitlen(q) is refused, i.e. the accepted domain is |scaled| <= 2^(bitlen(q)-2) (which is
//! <= q/2, so it fits); encode_i64_single accepts |v| < 2^(bitlen(q)-3). The monitor asserts
//! "must not panic + value" inside that domain (minus a 2^-20 relative band), "must panic" when the
//! scaled magnitude exceeds q/2 (plus band: it does not fit the modulus, the centered lift cannot
//! be the input) and nothing in between (counted as out_of_precondition).

use crate::big::{BigI, BigU};
use crate::he::*;
use crate::refm;
use crate::rt::*;
use heathcliff::*;
use serde_json::{json, Value};
use std::collections::HashMap;
use std::sync::Arc;

const P: &str = "C12";
const BAND: f64 = 1.0 / 1048576.0; // 2^-20 relative safety band around refusal thresholds
const TWO52: f64 = 4503599627370496.0;

// ------------------------------------------------------------------ context under test
struct Lvl { id: ParmsID, qs: Vec<u64>, roots: Vec<u64>, crt: refm::Crt, b: usize, idx: usize }
struct Cut { spec: Spec, enc: CKKSEncoder, n: usize, lvls: Vec<Lvl> }

fn build(spec: &Spec) -> Result<Cut, String> {
    let ctx: Arc<HeContext> = spec.context()?;
    let enc = lib(|| CKKSEncoder::new(ctx.clone())).map_err(|p| format!("CKKSEncoder::new panicked: {}", p.0))?;
    let mut lvls = vec![];
    let mut cur = ctx.first_context_data();
    let mut idx = 0;
    while let Some(c) = cur {
        let qs: Vec<u64> = c.parms().coeff_modulus().iter().map(|m| m.value()).collect();
        let roots: Vec<u64> = c.small_ntt_tables().iter().map(|t| t.root()).collect();
        let crt = refm::Crt::new(&qs).ok_or("moduli not coprime")?;
        let b = crt.big_q.bits();
        lvls.push(Lvl { id: *c.parms_id(), qs, roots, crt, b, idx });
        idx += 1;
        cur = c.next_context_data();
    }
    Ok(Cut { spec: spec.clone(), enc, n: spec.n, lvls })
}

// ------------------------------------------------------------------ inputs
#[derive(Clone, Debug)]
enum Entry { Arr(Vec<C64>), F64(f64), C64s(C64), I64(i64), Poly(Vec<f64>) }
impl Entry {
    fn name(&self) -> &'static str {
        match self { Entry::Arr(_) => "encode_c64_array", Entry::F64(_) => "encode_f64_single", Entry::C64s(_) => "encode_c64_single",
            Entry::I64(_) => "encode_i64_single", Entry::Poly(_) => "encode_f64_polynomial" }
    }
    fn json(&self) -> Value {
        let c = |v: &C64| json!([v.re, v.im]);
        match self {
            Entry::Arr(v) => json!({"len": v.len(), "values(first 16)": v.iter().take(16).map(c).collect::<Vec<_>>()}),
            Entry::F64(v) => json!({"value": v}),
            Entry::C64s(v) => json!({"value": c(v)}),
            Entry::I64(v) => json!({"value": v}),
            Entry::Poly(v) => json!({"len": v.len(), "coefficients(first 16)": v.iter().take(16).collect::<Vec<_>>()}),
        }
    }
}
struct Input { entry: Entry, scale: f64, new_form: bool, vclass: &'static str, dirty: bool }

/// magnitude in [2^(m-1), 2^m)
fn mag(rng: &mut Rng, m: i32) -> f64 { (0.5 + 0.5 * rng.f64()) * 2f64.powi(m) }
fn sgn(rng: &mut Rng) -> f64 { if rng.bool() { 1.0 } else { -1.0 } }
fn len_pick(rng: &mut Rng, max: usize) -> usize {
    match rng.below(4) { 0 => max, 1 => 1, _ => rng.range(1, max as u64) as usize }
}

fn gen_values(rng: &mut Rng, slots: usize, m: i32) -> (&'static str, Vec<C64>) {
    let len = len_pick(rng, slots);
    let z = C64::new(0.0, 0.0);
    let (cls, mut v): (&'static str, Vec<C64>) = match rng.below(12) {
        0 => ("zero", vec![z; len]),
        1 => ("real_positive", (0..len).map(|_| C64::new(mag(rng, m), 0.0)).collect()),
        2 => ("real_negative", (0..len).map(|_| C64::new(-mag(rng, m), 0.0)).collect()),
        3 => ("real_mixed_sign", (0..len).map(|_| C64::new(sgn(rng) * mag(rng, m), 0.0)).collect()),
        4 => ("purely_imaginary", (0..len).map(|_| C64::new(0.0, sgn(rng) * mag(rng, m))).collect()),
        5 => ("complex", (0..len).map(|_| C64::new(sgn(rng) * mag(rng, m), sgn(rng) * mag(rng, m))).collect()),
        6 => { let mut v = vec![z; len]; v[len - 1] = C64::new(sgn(rng) * mag(rng, m), sgn(rng) * mag(rng, m)); ("single_slot", v) }
        7 => ("integers_mixed_sign", (0..len).map(|_| C64::new(sgn(rng) * mag(rng, m).floor(), 0.0)).collect()),
        8 => { let c = C64::new(sgn(rng) * mag(rng, m), sgn(rng) * mag(rng, m)); ("all_equal_complex", vec![c; len]) }
        9 => ("mixed_magnitudes", (0..len).map(|_| { let e = rng.range(0, m.max(0) as u64) as i32; C64::new(sgn(rng) * mag(rng, e), if rng.bool() { sgn(rng) * mag(rng, e) } else { 0.0 }) }).collect()),
        10 => ("fractions_below_1", (0..len).map(|_| C64::new(sgn(rng) * rng.f64(), sgn(rng) * rng.f64())).collect()),
        _ => ("complex_conjugate_pairs", (0..len).map(|i| { let a = mag(rng, m); C64::new(a, if i % 2 == 0 { a } else { -a }) }).collect()),
    };
    if rng.chance(1, 40) { return ("empty", vec![]); }
    // make sure one entry carries the intended magnitude (except for the classes that fix their own)
    if cls != "zero" && cls != "fractions_below_1" && !v.is_empty() {
        let a = mag(rng, m);
        let i = v.len() - 1;
        v[i] = match cls { "purely_imaginary" => C64::new(0.0, -a), "real_positive" => C64::new(a, 0.0), "integers_mixed_sign" => C64::new(-a.floor(), 0.0),
            "real_negative" | "real_mixed_sign" => C64::new(-a, 0.0), "all_equal_complex" => v[i], _ => C64::new(-a, v[i].im) };
    }
    (cls, v)
}

fn gen_poly(rng: &mut Rng, n: usize, m: i32) -> (&'static str, Vec<f64>) {
    if rng.chance(1, 40) { return ("empty", vec![]); }
    let len = len_pick(rng, n);
    let (cls, mut v): (&'static str, Vec<f64>) = match rng.below(7) {
        0 => ("zero", vec![0.0; len]),
        1 => ("positive", (0..len).map(|_| mag(rng, m)).collect()),
        2 => ("negative", (0..len).map(|_| -mag(rng, m)).collect()),
        3 => ("mixed_sign", (0..len).map(|_| sgn(rng) * mag(rng, m)).collect()),
        4 => ("integers_mixed_sign", (0..len).map(|_| sgn(rng) * mag(rng, m).floor()).collect()),
        5 => { let mut v = vec![0.0; len]; v[len - 1] = sgn(rng) * mag(rng, m); ("single_coefficient", v) }
        _ => ("mixed_magnitudes", (0..len).map(|_| { let e = rng.range(0, m.max(0) as u64) as i32; sgn(rng) * mag(rng, e) }).collect()),
    };
    if cls != "zero" { let i = v.len() - 1; let a = mag(rng, m); v[i] = if cls == "positive" { a } else if cls == "integers_mixed_sign" { -a.floor() } else { -a }; }
    (cls, v)
}

/// choose (target log2 of the scaled magnitude, tag) for a level with modulus bit length b
fn pick_target(rng: &mut Rng, b: usize) -> (i32, &'static str) {
    let lim = (b as i32 - 3).min(1015); // highest comfortably in-domain scaled bit size
    let mut opts: Vec<(i32, i32, &'static str)> = vec![(0, lim.min(62), "below64")];
    if lim >= 67 { opts.push((67, lim.min(126), "64to128")); opts.push((67, lim.min(126), "64to128")); }
    if lim >= 132 { opts.push((132, lim, "above128")); opts.push((132, lim, "above128")); }
    if lim >= 66 { opts.push((62, 66, "switch64")); }
    if lim >= 131 { opts.push((126, 131, "switch128")); }
    if b < 1000 { opts.push((b as i32 - 4, b as i32 + 1, "near_limit")); opts.push((b as i32 + 1, b as i32 + 30, "too_large")); }
    let (lo, hi, tag) = *rng.pick(&opts);
    (rng.range(lo as u64, hi.max(lo) as u64) as i32, tag)
}

/// split the target T into a value magnitude 2^m (m in 0..=60) and a scale 2^s (s in 0..=b-2)
fn split(rng: &mut Rng, t: i32, b: usize) -> (i32, f64) {
    let smax = (b as i32 - 2).min(1020);
    let mlo = (t - smax).max(0).min(60);
    let mhi = t.min(60).max(mlo);
    let m = rng.range(mlo as u64, mhi as u64) as i32;
    let s = (t - m).clamp(0, smax);
    let mut scale = 2f64.powi(s);
    if rng.chance(1, 4) { scale *= 1.0 + rng.f64() * 0.5; } // not a power of two; log2 stays below s + 0.585
    (m, scale)
}

fn gen_input(rng: &mut Rng, cut: &Cut, l: &Lvl) -> Input {
    let n = cut.n;
    let (t, _tag) = pick_target(rng, l.b);
    let new_form = rng.bool();
    let dirty = !new_form && rng.bool();
    match rng.below(10) {
        0 | 1 | 2 => { let (m, scale) = split(rng, t, l.b); let (c, v) = gen_values(rng, n / 2, m); Input { entry: Entry::Arr(v), scale, new_form, vclass: c, dirty } }
        3 | 4 => { let (m, scale) = split(rng, t, l.b); let (c, v) = gen_poly(rng, n, m); Input { entry: Entry::Poly(v), scale, new_form, vclass: c, dirty } }
        5 | 6 => {
            let (m, scale) = split(rng, t, l.b);
            let (c, v) = match rng.below(6) { 0 => ("zero", 0.0), 1 => ("positive", mag(rng, m)), 2 => ("negative", -mag(rng, m)), 3 => ("negative_integer", -mag(rng, m).floor()),
                4 => ("fraction_below_1", sgn(rng) * rng.f64()), _ => ("positive_integer", mag(rng, m).floor()) };
            Input { entry: Entry::F64(v), scale, new_form, vclass: c, dirty }
        }
        7 => {
            let (m, scale) = split(rng, t, l.b);
            let (c, v) = match rng.below(5) { 0 => ("real_negative", C64::new(-mag(rng, m), 0.0)), 1 => ("purely_imaginary", C64::new(0.0, sgn(rng) * mag(rng, m))),
                2 => ("zero", C64::new(0.0, 0.0)), 3 => ("real_positive", C64::new(mag(rng, m), 0.0)), _ => ("complex", C64::new(sgn(rng) * mag(rng, m), sgn(rng) * mag(rng, m))) };
            Input { entry: Entry::C64s(v), scale, new_form, vclass: c, dirty }
        }
        _ => {
            // integers of either sign relative to the primes of this level and to the refusal threshold
            let qmin = *l.qs.iter().min().unwrap(); let qmax = *l.qs.iter().max().unwrap();
            let lim_bits = (l.b as i64 - 3).clamp(1, 63) as u32; // |v| < 2^(b-3) accepted
            let cap = |x: u64| -> i64 { x.min(i64::MAX as u64) as i64 };
            let (c, a): (&'static str, i64) = match rng.below(10) {
                0 => ("small", rng.below(3) as i64),
                1 => ("below_every_prime", cap(rng.below(qmin))),
                2 => ("between_primes", cap(rng.range(qmin, qmax))),
                3 | 4 | 5 => ("above_every_prime", cap(qmax + 1 + rng.bits(lim_bits.min(62)))),
                6 => ("prime_multiple_or_neighbour", cap(qmin * rng.range(1, 3) + rng.below(3)) - 1),
                7 => ("near_threshold", cap((1u64 << lim_bits.min(62)) - 2 + rng.below(5))),
                8 => ("extreme", if rng.bool() { i64::MAX } else { i64::MIN }),
                _ => ("random_bits", cap(rng.bits(62))),
            };
            let v = if a == i64::MIN || a == i64::MAX { a } else if rng.chance(2, 3) { -a } else { a };
            Input { entry: Entry::I64(v), scale: 1.0, new_form, vclass: c, dirty }
        }
    }
}

// ------------------------------------------------------------------ expectation
struct Expect {
    /// expected real coefficient vector (length N) and per-coefficient tolerance on |c_j - r_j|
    r: Vec<f64>, tol: Vec<f64>,
    /// largest expected |coefficient| (lower / upper estimate)
    xlo: f64, xhi: f64,
    /// bit size by the library's own rule for the path selection
    bits: i64,
    /// expected decode output: slots (N/2) or coefficients (N), max |value|
    slots: Option<Vec<C64>>, coeffs: Option<Vec<f64>>, vmax: f64,
}

fn is_pow2(x: f64) -> bool { x > 0.0 && x.is_finite() && { let (m, _) = frexp(x); m == 0.5 } }
fn frexp(x: f64) -> (f64, i32) {
    if x == 0.0 || !x.is_finite() { return (x, 0); }
    let bits = x.to_bits(); let e = ((bits >> 52) & 0x7ff) as i32;
    if e == 0 { let (m, ex) = frexp(x * TWO52); return (m, ex - 52); }
    (f64::from_bits((bits & !(0x7ffu64 << 52)) | (1022u64 << 52)), e - 1022)
}

/// tolerance for one directly scaled coefficient x = v * scale
fn direct_tol(x: f64, exact_product: bool) -> f64 {
    if exact_product && x.abs() < TWO52 * 2.0 { 0.5 + 1e-9 } else { 0.5 + 1e-9 + x.abs() / TWO52 * 2.0 }
}

fn expect(cut: &Cut, inp: &Input) -> Expect {
    let n = cut.n; let scale = inp.scale;
    let logn = n.trailing_zeros() as f64;
    let p2 = is_pow2(scale);
    let embed = |vals: &[C64]| -> (Vec<f64>, Vec<f64>, f64) {
        let vmax = vals.iter().map(|v| v.re.abs().max(v.im.abs()).max(v.norm())).fold(0.0, f64::max);
        let e = embed_encode(vals, n);
        let r: Vec<f64> = e.iter().map(|x| x * scale).collect();
        let eps = scale * vmax / TWO52 * (n as f64 / 2.0 + 8.0 * logn + 32.0);
        (r, vec![0.5 + eps; n], vmax)
    };
    match &inp.entry {
        Entry::Arr(v) => {
            let (r, tol, vmax) = embed(v);
            let rmax = r.iter().map(|x| x.abs()).fold(0.0, f64::max);
            let eps = tol[0] - 0.5;
            let mut slots = v.clone(); slots.resize(n / 2, C64::new(0.0, 0.0));
            Expect { bits: rmax.max(1.0).log2().ceil().min(1e6) as i64, xlo: (rmax - eps).max(0.0), xhi: rmax + eps, r, tol, slots: Some(slots), coeffs: None, vmax }
        }
        Entry::C64s(c) => {
            let v = vec![*c; n / 2];
            let (r, tol, vmax) = embed(&v);
            let rmax = r.iter().map(|x| x.abs()).fold(0.0, f64::max);
            let eps = tol[0] - 0.5;
            Expect { bits: rmax.max(1.0).log2().ceil().min(1e6) as i64, xlo: (rmax - eps).max(0.0), xhi: rmax + eps, r, tol, slots: Some(v), coeffs: None, vmax }
        }
        Entry::F64(v) => {
            let x = v * scale;
            let mut r = vec![0.0; n]; r[0] = x;
            let mut tol = vec![0.0; n]; tol[0] = direct_tol(x, p2);
            let bits = if x.abs() >= 1.0 { (x.abs().log2().floor().min(1e6) as i64) + 2 } else { 2 };
            let mut co = vec![0.0; n]; co[0] = *v;
            Expect { bits, xlo: x.abs() * (1.0 - 4.0 / TWO52), xhi: x.abs() * (1.0 + 4.0 / TWO52), r, tol, slots: Some(vec![C64::new(*v, 0.0); n / 2]), coeffs: Some(co), vmax: v.abs() }
        }
        Entry::I64(v) => {
            let x = *v as f64; // only used for decode comparison and reporting; the coefficient itself is compared exactly
            let mut r = vec![0.0; n]; r[0] = x;
            let tol = vec![0.0; n];
            let mut co = vec![0.0; n]; co[0] = x;
            Expect { bits: 64 - v.unsigned_abs().leading_zeros() as i64 + 2, xlo: x.abs(), xhi: x.abs(), r, tol, slots: Some(vec![C64::new(x, 0.0); n / 2]), coeffs: Some(co), vmax: x.abs() }
        }
        Entry::Poly(v) => {
            let mut r = vec![0.0; n]; let mut tol = vec![0.0; n];
            for (i, c) in v.iter().enumerate() { r[i] = c * scale; tol[i] = direct_tol(r[i], p2); }
            let rmax = r.iter().map(|x| x.abs()).fold(0.0, f64::max);
            let vmax = v.iter().map(|x| x.abs()).fold(0.0, f64::max);
            let mut co = v.clone(); co.resize(n, 0.0);
            Expect { bits: rmax.max(1.0).log2().ceil().min(1e6) as i64, xlo: rmax * (1.0 - 4.0 / TWO52), xhi: rmax * (1.0 + 4.0 / TWO52), r, tol, slots: None, coeffs: Some(co), vmax }
        }
    }
}

/// magnitude path by the bit size of the largest scaled coefficient (the library switches at 64 and 128 bits;
/// whether the sign bit is counted moves the switch by one, so the bit sizes next to it get their own label)
fn path_label(bits: i64) -> &'static str {
    if bits <= 62 { "scaled<=62bit" } else if bits <= 65 { "scaled 63..65bit (path switch)" } else if bits <= 126 { "scaled 66..126bit" }
    else if bits <= 129 { "scaled 127..129bit (path switch)" } else { "scaled>=130bit" }
}

#[derive(PartialEq, Clone, Copy, Debug)]
enum Dom { In, MustRefuse(&'static str), Band }

fn pow2f(e: i64) -> f64 { if e > 1023 { f64::INFINITY } else { 2f64.powi(e as i32) } }

/// domain decision from the documented thresholds (see module comment)
fn domain(l: &Lvl, inp: &Input, ex: &Expect) -> Dom {
    let b = l.b as i64;
    // scale
    if !matches!(inp.entry, Entry::I64(_)) {
        let s = inp.scale;
        if !(s > 0.0) { return Dom::MustRefuse("scale<=0"); }
        let lg = s.log2();
        let slack = if is_pow2(s) { 0.0 } else { 1e-9 };
        if lg >= (b - 1) as f64 + slack { return Dom::MustRefuse("scale>=2^(bitlen(q)-1)"); }
        if !(lg < (b - 1) as f64 - slack) { return Dom::Band; }
    }
    if let Entry::I64(v) = inp.entry {
        let a = BigU::from_u64(v.unsigned_abs());
        if a.shl(1) > l.crt.big_q { return Dom::MustRefuse(if (a.bits() as i64) < b { "q/2<scaled<=2^(bitlen(q)-1)" } else { "scaled>2^(bitlen(q)-1)" }); }
        if (a.bits() as i64) + 2 < b { return Dom::In; }
        return Dom::Band;
    }
    if !ex.xhi.is_finite() { return Dom::Band; } // expectation overflowed double precision: nothing asserted
    let half_q = l.crt.big_q.to_f64() / 2.0; // +inf beyond 2^1024: then nothing is ever "too large"
    if ex.xlo * (1.0 - BAND) - 1.0 > half_q {
        // two structural classes: clearly above 2^(bitlen(q)-1) (more bits than q), or between q/2 and (about) 2^(bitlen(q)-1)
        return Dom::MustRefuse(if ex.xlo * (1.0 - BAND) > pow2f(b - 1) { "scaled>2^(bitlen(q)-1)" } else { "q/2<scaled<=2^(bitlen(q)-1)" });
    }
    if ex.xhi * (1.0 + BAND) + 1.0 <= pow2f(b - 2) { return Dom::In; }
    Dom::Band
}

// ------------------------------------------------------------------ the call
fn call(cut: &Cut, l: &Lvl, inp: &Input, dest: Plaintext) -> Result<Plaintext, Panicked> {
    let e = &cut.enc; let id = Some(l.id); let s = inp.scale;
    lib(move || {
        let mut d = dest;
        match (&inp.entry, inp.new_form) {
            (Entry::Arr(v), true) => e.encode_c64_array_new(v, id, s),
            (Entry::Arr(v), false) => { e.encode_c64_array(v, id, s, &mut d); d }
            (Entry::F64(v), true) => e.encode_f64_single_new(*v, id, s),
            (Entry::F64(v), false) => { e.encode_f64_single(*v, id, s, &mut d); d }
            (Entry::C64s(v), true) => e.encode_c64_single_new(*v, id, s),
            (Entry::C64s(v), false) => { e.encode_c64_single(*v, id, s, &mut d); d }
            (Entry::I64(v), true) => e.encode_i64_single_new(*v, id),
            (Entry::I64(v), false) => { e.encode_i64_single(*v, id, &mut d); d }
            (Entry::Poly(v), true) => e.encode_f64_polynomial_new(v, id, s),
            (Entry::Poly(v), false) => { e.encode_f64_polynomial(v, id, s, &mut d); d }
        }
    })
}

/// inverse-transform every component and lift to one centered big-integer vector;
/// Err(description) if a residue is unreduced or the lift does not reproduce a component.
fn lift(l: &Lvl, n: usize, data: &[u64]) -> Result<Vec<BigI>, String> {
    let k = l.qs.len();
    if data.len() != n * k { return Err(format!("plaintext has {} words, expected {}", data.len(), n * k)); }
    let mut comp: Vec<Vec<u64>> = vec![];
    for i in 0..k {
        let c = &data[i * n..(i + 1) * n];
        if let Some(j) = c.iter().position(|&x| x >= l.qs[i]) { return Err(format!("component {} word {} = {} is not reduced modulo {}", i, j, c[j], l.qs[i])); }
        comp.push(refm::intt_ref(c, l.roots[i], l.qs[i]));
    }
    let mut memo: HashMap<Vec<u64>, BigI> = HashMap::new();
    let mut out = Vec::with_capacity(n);
    for j in 0..n {
        let res: Vec<u64> = (0..k).map(|i| comp[i][j]).collect();
        let c = if let Some(c) = memo.get(&res) { c.clone() } else {
            let c = if res.iter().all(|&x| x == 0) { BigI::zero() } else { l.crt.compose_centered(&res) };
            // the "consistently in every RNS component" clause, checked directly
            for i in 0..k { if c.mod_u64(l.qs[i]) != res[i] { return Err(format!("lifted coefficient {} does not reduce to component {}", j, i)); } }
            memo.insert(res, c.clone()); c
        };
        out.push(c);
    }
    Ok(out)
}

struct Cx<'a> { cfg: &'a Cfg, grp: &'a str, case: u64 }

fn describe(cut: &Cut, l: &Lvl, inp: &Input, ex: &Expect) -> Value {
    json!({"params": cut.spec.describe(), "level": l.idx, "level_primes": l.qs, "bitlen_q": l.b, "entry": inp.entry.name(),
        "form": if inp.new_form { "_new" } else if inp.dirty { "destination(reused)" } else { "destination(fresh)" },
        "input": inp.entry.json(), "scale": inp.scale, "log2_scale": inp.scale.log2(), "value_class": inp.vclass,
        "expected_max_scaled_log2": ex.xhi.max(1.0).log2()})
}

fn value_class(l: &Lvl, inp: &Input, ex: &Expect) -> String {
    match &inp.entry {
        Entry::I64(v) => {
            let qmin = *l.qs.iter().min().unwrap();
            if *v == i64::MIN { "value=i64::MIN".into() }
            else if *v < 0 && v.unsigned_abs() > qmin { "negative,|v|>prime".into() }
            else if *v < 0 { "negative,|v|<=every prime".into() } else if (*v as u64) > qmin { "nonnegative,v>prime".into() } else { "nonnegative,v<=every prime".into() }
        }
        Entry::Poly(_) => if ex.xhi >= pow2f(64) { "scaled>=2^64".into() } else { "scaled<2^64".into() },
        _ => path_label(ex.bits).to_string(),
    }
}

/// one input at one level: call, classify, check. Returns true if the case was asserted and held.
fn check_one(cx: &Cx, rep: &mut Report, cut: &Cut, l: &Lvl, inp: &Input) {
    let n = cut.n; let k = l.qs.len();
    let name = inp.entry.name();
    let form = if inp.new_form { "_new" } else { "destination" };
    let ex = expect(cut, inp);
    let dom = domain(l, inp, &ex);
    let vc = value_class(l, inp, &ex);
    // destination: fresh, or a plaintext that already holds an encoding at another level
    let dest = if inp.dirty {
        let other = &cut.lvls[(l.idx + 1) % cut.lvls.len()];
        lib(|| cut.enc.encode_f64_single_new(-3.0, Some(other.id), 4.0)).unwrap_or_else(|_| Plaintext::new())
    } else { Plaintext::new() };
    let got = call(cut, l, inp, dest);
    let info = || describe(cut, l, inp, &ex);
    match dom {
        Dom::Band => { rep.out_of_precondition += 1; rep.count("outside_asserted_domain", &format!("{}|{}", name, if got.is_ok() { "accepted" } else { "refused" })); return; }
        Dom::MustRefuse(why) => {
            rep.eval(Some(&format!("refuse|{}|{}|{}|k={}", name, form, why, k)));
            rep.count("refusals", &format!("{}|{}|{}", name, why, if got.is_err() { "refused" } else { "NOT refused" }));
            if got.is_ok() {
                rep.violation(&format!("{}|{}|{}|not_refused", P, name, why), format!("{} accepted an input it must refuse ({}): {}", name, why, info()), replay_json(cx.cfg, cx.grp, cx.case, info()));
            }
            return;
        }
        Dom::In => {}
    }
    if let Entry::Poly(v) = &inp.entry { if v.is_empty() { rep.out_of_precondition += 1; rep.count("outside_asserted_domain", &format!("{}|empty list|{}", name, if got.is_ok() { "accepted" } else { "refused" })); return; } }
    let path = if matches!(inp.entry, Entry::I64(_)) { "integer (no scale)" } else { path_label(ex.bits) };
    rep.eval(Some(&format!("{}|{}|{}|{}|k={}|n={}", name, form, inp.vclass, path, k, n)));
    rep.count("entry_point", &format!("{}{}", name, if inp.new_form { "_new" } else { "" }));
    rep.count("magnitude_path", &format!("{}|{}", name, path));
    rep.count("level_primes", &format!("k={:02}", k));
    rep.count("degree", &format!("n={}", n));
    rep.count("value_class", &format!("{}|{}", name, inp.vclass));
    if !matches!(inp.entry, Entry::I64(_)) {
        rep.count("scale", if is_pow2(inp.scale) { "power_of_two" } else { "not_power_of_two" });
        rep.max("log2_scale", inp.scale.log2()); rep.min("log2_scale", inp.scale.log2());
        rep.max("log2_scaled_magnitude_asserted", ex.xhi.max(1.0).log2());
        rep.min("bitlen_q - log2_scale (asserted accepted)", l.b as f64 - inp.scale.log2());
    }
    if let Entry::I64(v) = inp.entry { if v < 0 && l.qs.iter().any(|&q| v.unsigned_abs() > q) { rep.count("integer_vs_primes", "negative,|v|>some prime"); } else if v > 0 && l.qs.iter().any(|&q| v as u64 > q) { rep.count("integer_vs_primes", "positive,v>some prime"); } else { rep.count("integer_vs_primes", "within every prime"); } }
    let p = match got {
        Ok(p) => p,
        Err(e) => { rep.violation(&format!("{}|{}|{}|panic", P, name, vc), format!("{} panicked on an in-domain input: {} ; {}", name, e.0, info()), replay_json(cx.cfg, cx.grp, cx.case, info())); return; }
    };
    // ---- metadata
    let want_scale = if matches!(inp.entry, Entry::I64(_)) { 1.0 } else { inp.scale };
    if *p.parms_id() != l.id || p.scale().to_bits() != want_scale.to_bits() || p.data().len() != n * k || p.coeff_count() != n * k {
        rep.violation(&format!("{}|{}|{}|metadata", P, name, form), format!("parms_id ok={} scale={} (want {}) data_len={} coeff_count={} (want {}) ; {}", *p.parms_id() == l.id, p.scale(), want_scale, p.data().len(), p.coeff_count(), n * k, info()), replay_json(cx.cfg, cx.grp, cx.case, info()));
        return;
    }
    // ---- the plaintext is the residue vector of ONE integer coefficient vector...
    let c = match lift(l, n, p.data()) {
        Ok(c) => c,
        Err(e) => { rep.violation(&format!("{}|{}|{}|rns_component", P, name, vc), format!("{} ; {}", e, info()), replay_json(cx.cfg, cx.grp, cx.case, info())); return; }
    };
    // ---- ...which is the rounded scaled preimage
    let mut bad: Option<(usize, f64)> = None;
    let mut worst = 0.0f64;
    if let Entry::I64(v) = inp.entry {
        let want = BigI::from_i64(v);
        for j in 0..n { let w = if j == 0 { want.clone() } else { BigI::zero() }; if c[j] != w { bad = Some((j, c[j].sub(&w).to_f64())); break; } }
    } else {
        for j in 0..n {
            let d = if ex.tol[j] == 0.0 { if c[j].is_zero() && ex.r[j] == 0.0 { 0.0 } else { f64::INFINITY } } else { (c[j].to_f64() - ex.r[j]).abs() };
            let over = if ex.tol[j] == 0.0 { d } else { d / ex.tol[j] };
            if over.is_nan() || over > 1.0 { if bad.is_none() { bad = Some((j, d)); } } else if over > worst { worst = over; }
        }
    }
    if let Some((j, d)) = bad {
        let mut inf = info();
        inf["observed"] = json!({"index": j, "coefficient": c[j].to_dec(), "expected_real": ex.r[j], "tolerance": ex.tol[j], "difference": d,
            "observed_coefficients(first 8)": c.iter().take(8).map(|x| x.to_dec()).collect::<Vec<_>>(), "expected(first 8)": ex.r.iter().take(8).collect::<Vec<_>>()});
        rep.violation(&format!("{}|{}|{}|value", P, name, vc), format!("coefficient {} = {} but expected {} +- {} ; {}", j, c[j].to_dec(), ex.r[j], ex.tol[j], inf), replay_json(cx.cfg, cx.grp, cx.case, inf));
        return;
    }
    if !matches!(inp.entry, Entry::I64(_)) { rep.max("worst |c-r| / tolerance", worst); }
    if matches!(inp.entry, Entry::Arr(_) | Entry::C64s(_)) && ex.tol[0] > 0.75 {
        // how much of the floating-point allowance eps was actually used (transform error only: |c-r| - 1/2 over eps)
        let used = (0..n).map(|j| ((c[j].to_f64() - ex.r[j]).abs() - 0.5) / (ex.tol[j] - 0.5)).fold(0.0, f64::max);
        rep.max("embedding: (|c-r| - 1/2) / eps, largest", used);
    }
    // ---- decode returns the input
    let sum_tol: f64 = ex.tol.iter().sum::<f64>() / want_scale;
    let fp = ckks_fp_tolerance(n, k, ex.vmax, want_scale);
    let use_new = (cx.case + j_hash(&ex.r)) % 2 == 0;
    if let Some(slots) = &ex.slots {
        let dec = lib(|| if use_new { cut.enc.decode_new(&p) } else { let mut v = vec![C64::new(7.0, 7.0); 3]; cut.enc.decode(&p, &mut v); v });
        rep.count("decode", if use_new { "decode_new" } else { "decode" });
        match dec {
            Err(e) => { rep.violation(&format!("{}|decode|after {}|panic", P, name), format!("decode panicked: {} ; {}", e.0, info()), replay_json(cx.cfg, cx.grp, cx.case, info())); return; }
            Ok(d) => {
                let tol = sum_tol + fp;
                let mut w: Option<(usize, f64)> = None;
                if d.len() != n / 2 { w = Some((d.len(), f64::INFINITY)); } else {
                    for i in 0..n / 2 { let e = (d[i] - slots[i]).norm(); if !(e <= tol) { w = Some((i, e)); break; } }
                }
                if let Some((i, e)) = w {
                    let mut inf = info(); inf["observed"] = json!({"slot": i, "error": e, "tolerance": tol, "decoded(first 4)": d.iter().take(4).map(|v| json!([v.re, v.im])).collect::<Vec<_>>()});
                    rep.violation(&format!("{}|decode|after {},{}|value", P, name, vc), format!("slot {} off by {} > {} ; {}", i, e, tol, inf), replay_json(cx.cfg, cx.grp, cx.case, inf));
                    return;
                }
            }
        }
    }
    if let Some(co) = &ex.coeffs {
        let dec = lib(|| if use_new { cut.enc.decode_polynomial_new(&p) } else { let mut v = vec![7.0; 1]; cut.enc.decode_polynomial(&p, &mut v); v });
        rep.count("decode", if use_new { "decode_polynomial_new" } else { "decode_polynomial" });
        match dec {
            Err(e) => { rep.violation(&format!("{}|decode_polynomial|after {}|panic", P, name), format!("decode_polynomial panicked: {} ; {}", e.0, info()), replay_json(cx.cfg, cx.grp, cx.case, info())); return; }
            Ok(d) => {
                let mut w: Option<(usize, f64, f64)> = None;
                if d.len() != n { w = Some((d.len(), f64::INFINITY, 0.0)); } else {
                    for i in 0..n { let tol = ex.tol[i] / want_scale + fp; let e = (d[i] - co[i]).abs(); if !(e <= tol) { w = Some((i, e, tol)); break; } }
                }
                if let Some((i, e, tol)) = w {
                    let mut inf = info(); inf["observed"] = json!({"coefficient": i, "error": e, "tolerance": tol, "decoded(first 4)": d.iter().take(4).collect::<Vec<_>>()});
                    rep.violation(&format!("{}|decode_polynomial|after {},{}|value", P, name, vc), format!("coefficient {} off by {} > {} ; {}", i, e, tol, inf), replay_json(cx.cfg, cx.grp, cx.case, inf));
                    return;
                }
            }
        }
    }
    if rep.samples.len() < 6 && (cx.case % 7 == 3 || cx.grp == "directed") {
        let mut s = info();
        s["observed"] = json!({"lifted_coefficients(first 4)": c.iter().take(4).map(|x| x.to_dec()).collect::<Vec<_>>(), "expected_real(first 4)": ex.r.iter().take(4).collect::<Vec<_>>(),
            "tolerance": ex.tol[0], "worst |c-r|/tolerance": worst, "path": path});
        rep.sample(s);
    }
}

fn j_hash(r: &[f64]) -> u64 { r.iter().take(4).fold(0u64, |a, x| a.wrapping_mul(31).wrapping_add(x.to_bits() >> 7)) }

// ------------------------------------------------------------------ refusals of bad scales
fn scale_refusals(cx: &Cx, rep: &mut Report, rng: &mut Rng, cut: &Cut, l: &Lvl) {
    let b = l.b as i64;
    let mut scales: Vec<f64> = vec![0.0, -1.0, -(2f64.powi(20)), f64::NEG_INFINITY];
    for e in [b - 1, b, b + 7] { if e <= 1023 { scales.push(pow2f(e)); } }
    if b - 1 <= 1022 { scales.push(pow2f(b - 1) * 1.25); }
    scales.push(f64::INFINITY);
    // and the largest in-domain scales must be accepted (tiny value so that it fits)
    let mut ok_scales: Vec<f64> = vec![1.0];
    if b - 2 <= 1023 { ok_scales.push(pow2f(b - 2)); ok_scales.push(pow2f(b - 2) * 1.4); }
    for (list, _) in [(&scales, false), (&ok_scales, true)] {
        for &s in list.iter() {
            let which = rng.below(4);
            let tiny = 2f64.powi(-3);
            let entry = match which { 0 => Entry::Arr(vec![C64::new(tiny, -tiny)]), 1 => Entry::F64(-tiny), 2 => Entry::C64s(C64::new(0.0, tiny)), _ => Entry::Poly(vec![tiny, -tiny]) };
            let inp = Input { entry, scale: s, new_form: rng.bool(), vclass: "tiny(scale probe)", dirty: false };
            check_one(cx, rep, cut, l, &inp);
        }
    }
}

// ------------------------------------------------------------------ workloads
fn chain_spec(rng: &mut Rng, n: usize, total: usize) -> Option<Spec> {
    let logm = (2 * n).trailing_zeros();
    let lo = 20u32.max(logm + 2);
    let fam = rng.below(5);
    let bits: Vec<u32> = (0..total).map(|_| match fam { 0 => lo, 1 => 60, 2 => rng.range(lo as u64, 60) as u32, 3 => *rng.pick(&[lo, 30, 40, 50, 60]), _ => rng.range(lo as u64, 36) as u32 }).collect();
    let qs = coeff_primes(n, &bits, rng)?;
    // with the special-prime flag the first data level holds all primes; otherwise the last prime is the key prime
    let special_flag = if total >= 20 { false } else if total == 1 { rng.bool() } else { rng.chance(1, 2) };
    Some(Spec { scheme: SchemeType::CKKS, n, qs, t: 0, special_flag, expand: true, family: format!("chain{}-fam{}", total, fam) })
}

fn context_case(cfg: &Cfg, grp: &str, case: u64, rng: &mut Rng, rep: &mut Report, ns: &[usize], max_total: usize, per_level: usize) {
    let n = *rng.pick(ns);
    let total = if rng.chance(1, 6) { *rng.pick(&[1usize, 2, 3, max_total.min(19), max_total]) } else { rng.range(1, max_total as u64) as usize };
    let Some(spec) = chain_spec(rng, n, total) else { rep.count("generator", "no primes"); return; };
    let cut = match build(&spec) { Ok(c) => c, Err(e) => { rep.count("generator", "rejected"); rep.note(&format!("context rejected: {}", e.chars().take(120).collect::<String>())); return; } };
    rep.count("generator", "ok");
    rep.count("chains", &format!("data_levels={:02}", cut.lvls.len())); rep.count("degree", &format!("N={:05}", n));
    for &q in &spec.qs { rep.count("prime_bits", &format!("{:02}", refm::bit_len(q))); }
    let cx = Cx { cfg, grp, case };
    for l in &cut.lvls {
        for _ in 0..per_level { let inp = gen_input(rng, &cut, l); check_one(&cx, rep, &cut, l, &inp); }
        if rng.chance(1, 3) { scale_refusals(&cx, rep, rng, &cut, l); }
    }
}

/// fixed minimal inputs (deterministic; they double as the smallest reproductions of known weak spots)
fn directed(cfg: &Cfg, grp: &str, case: u64, rep: &mut Report) {
    let cx = Cx { cfg, grp, case };
    let mk = |n: usize, bits: &[u32]| -> Option<Cut> {
        let mut qs = vec![]; for &b in bits { let c = ntt_primes_up(n, b, 8).into_iter().find(|c| !qs.contains(c))?; qs.push(c); }
        build(&Spec { scheme: SchemeType::CKKS, n, qs, t: 0, special_flag: true, expand: true, family: "directed".into() }).ok()
    };
    let inp = |entry: Entry, scale: f64, vclass: &'static str| Input { entry, scale, new_form: true, vclass, dirty: false };
    match case {
        0 => { // negative integer larger than a prime: two 20-bit primes, v = -(q0 + 5)
            let Some(cut) = mk(4, &[20, 20]) else { return }; let l = &cut.lvls[0];
            let v = -((l.qs[0] + 5) as i64);
            check_one(&cx, rep, &cut, l, &inp(Entry::I64(v), 1.0, "directed:-(q0+5)"));
            check_one(&cx, rep, &cut, l, &inp(Entry::I64(-v), 1.0, "directed:+(q0+5)"));
            check_one(&cx, rep, &cut, l, &inp(Entry::I64(-5), 1.0, "directed:-5"));
        }
        1 => { // coefficient list whose scaled value needs more than 64 bits: [3] at scale 2^64, three 30-bit primes
            let Some(cut) = mk(4, &[30, 30, 30]) else { return }; let l = &cut.lvls[0];
            check_one(&cx, rep, &cut, l, &inp(Entry::Poly(vec![3.0]), 2f64.powi(64), "directed:[3]*2^64"));
            check_one(&cx, rep, &cut, l, &inp(Entry::Poly(vec![-3.0, 1.0]), 2f64.powi(62), "directed:[-3,1]*2^62"));
            check_one(&cx, rep, &cut, l, &inp(Entry::F64(3.0), 2f64.powi(64), "directed:3*2^64"));
        }
        2 => { // scaled magnitude between q/2 and 2^(bitlen(q)-1): one 20-bit prime, constant 300000 at scale 1
            let Some(cut) = mk(4, &[20]) else { return }; let l = &cut.lvls[0];
            let x = (l.qs[0] / 2 + 1000) as f64;
            check_one(&cx, rep, &cut, l, &inp(Entry::Arr(vec![C64::new(x, 0.0); 2]), 1.0, "directed:q/2+1000"));
            check_one(&cx, rep, &cut, l, &inp(Entry::Poly(vec![x]), 1.0, "directed:q/2+1000"));
            check_one(&cx, rep, &cut, l, &inp(Entry::F64(x), 1.0, "directed:q/2+1000"));
        }
        3 => { // i64::MIN and i64::MAX where they fit (bitlen(q) > 66)
            let Some(cut) = mk(4, &[40, 40]) else { return }; let l = &cut.lvls[0];
            check_one(&cx, rep, &cut, l, &inp(Entry::I64(i64::MIN), 1.0, "directed:i64::MIN"));
            check_one(&cx, rep, &cut, l, &inp(Entry::I64(i64::MAX), 1.0, "directed:i64::MAX"));
            check_one(&cx, rep, &cut, l, &inp(Entry::I64(i64::MIN + 1), 1.0, "directed:i64::MIN+1"));
        }
        _ => { // complex values through the three paths, smallest degree
            let Some(cut) = mk(4, &[50, 50, 50, 50]) else { return }; let l = &cut.lvls[0];
            for s in [10, 70, 140] { check_one(&cx, rep, &cut, l, &inp(Entry::Arr(vec![C64::new(-1.5, 2.25), C64::new(0.0, -3.0)]), 2f64.powi(s), "directed:complex")); }
        }
    }
}

pub fn run(cfg: &Cfg, rep: &mut Report) -> PropMeta {
    run_cases(cfg, "directed", 5, rep, |case, _rng, rep| directed(cfg, "directed", case, rep));
    // long chains (1..20 primes in total => 1..19 at the data levels), N = 4..64
    run_cases(cfg, "long_chains", cfg.n(800, 5000) as u64, rep, |case, rng, rep| context_case(cfg, "long_chains", case, rng, rep, &[4, 8, 16, 32, 64], 20, cfg.pick(30, 40)));
    // short chains, larger degrees
    run_cases(cfg, "short_chains", cfg.n(160, 500) as u64, rep, |case, rng, rep| context_case(cfg, "short_chains", case, rng, rep, cfg.pick(&[128, 256, 512, 1024][..], &[128, 256, 512, 1024, 2048][..]), 4, cfg.pick(20, 30)));
    // large degrees with chains long enough for the >128-bit decomposition path (batched / blocked code only differs up there)
    run_cases(cfg, "large_degree_chains", cfg.n(3, 32) as u64, rep, |case, rng, rep| context_case(cfg, "large_degree_chains", case, rng, rep, &[2048, 4096], 8, 2));
    if !cfg.quick() {
        run_cases(cfg, "large_degree", cfg.n(1, 24) as u64, rep, |case, rng, rep| context_case(cfg, "large_degree", case, rng, rep, &[4096, 8192], 3, 3));
    }
    PropMeta {
        id: P, level: "exploration",
        rule: "one evaluation = one (context, level, entry point, form, input, scale) whose encoding was inverse-transformed with the O(N^2) reference, CRT-lifted to one centered integer vector, re-reduced modulo every prime and compared with the rounded scaled reference embedding (then decoded and compared with the input), or one must-refuse input; distinct = entry point x form x value class x magnitude path x primes at the level x degree (refusals: entry x form x reason x primes)",
        assumptions: vec![
            "coefficient tolerance 1/2 + scale*max|v|*2^-52*(N/2 + 8 log2 N + 32): worst-case error of the library's log2 N butterfly stages plus that of the naive reference embedding (derivation in the module comment)".into(),
            "direct entries (real single, coefficient list): 1/2 when value*scale is exact (power-of-two scale) and below 2^53, else 1/2 + 2^-51*|value*scale|; integer entry: exact equality".into(),
            "decode tolerance = (sum of coefficient tolerances)/scale + he::ckks_fp_tolerance (documented double-precision cancellation of the decoder); a word of q being exactly 0 (probability 2^-64) is ignored in that bound".into(),
            "asserted domain: scale > 0, log2(scale) < bitlen(q)-1, scaled magnitude <= 2^(bitlen(q)-2) (documented 'plus one sign bit' rule; integers: |v| < 2^(bitlen(q)-3)); must-refuse: scale <= 0, scale >= 2^(bitlen(q)-1), scaled magnitude > q/2; a 2^-20 relative band around the thresholds and the gap between them are executed but not asserted".into(),
            "scales are doubles, so scales and scaled magnitudes above 2^1023 (possible for chains beyond ~17 sixty-bit primes) are not representable and not exercised; empty coefficient lists are executed but not asserted".into(),
            "degrees above 8192 (quick: above 4096) are not exercised; only data levels are used (the decoder rejects plaintexts on a pure key level)".into(),
        ],
        exhaustive: false,
        floor: cfg.pick(20000, 200000),
    }
}
