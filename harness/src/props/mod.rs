use crate::rt::{Cfg, PropMeta, Report};

pub mod selftest;
pub mod c08;

pub fn dispatch(id: &str, cfg: &Cfg, rep: &mut Report) -> Option<PropMeta> {
    Some(match id {
        "C08" => c08::run(cfg, rep),
        _ => return None,
    })
}
