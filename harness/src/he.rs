//! Shared helpers on top of the library: parameter generation, context bundles, oracle decryptor.
