//! Shared helpers on top of the library: parameter specs and generators, a bundle of
//! library objects for one context ("Kit"), the oracle decryptor (schoolbook arithmetic
//! with the recovered ternary secret), analytic worst-case noise bounds and the reference
//! canonical embedding used for CKKS.

use crate::big::{centered, BigI, BigU};
use crate::refm;
use crate::rt::{lib, Rng};
use heathcliff::*;
use num_complex::Complex;
use std::sync::Arc;

pub type C64 = Complex<f64>;

// ------------------------------------------------------------------ specs
#[derive(Clone, Debug)]
pub struct Spec {
    pub scheme: SchemeType,
    pub n: usize,
    pub qs: Vec<u64>,
    pub t: u64,
    pub special_flag: bool, // use_special_prime_for_encryption
    pub expand: bool,
    /// generator family name (for coverage tables)
    pub family: String,
}

impl Spec {
    pub fn scheme_name(&self) -> &'static str { scheme_name(self.scheme) }
    pub fn describe(&self) -> serde_json::Value {
        serde_json::json!({"scheme": self.scheme_name(), "n": self.n, "qs": self.qs, "t": self.t,
            "special_flag": self.special_flag, "expand": self.expand, "family": self.family})
    }
    pub fn parms(&self) -> EncryptionParameters {
        let qs: Vec<Modulus> = self.qs.iter().map(|&q| Modulus::new(q)).collect();
        let mut p = EncryptionParameters::new(self.scheme).set_poly_modulus_degree(self.n).set_coeff_modulus(&qs);
        if self.scheme != SchemeType::CKKS { p = p.set_plain_modulus(&Modulus::new(self.t)); }
        p.set_use_special_prime_for_encryption(self.special_flag)
    }
    pub fn context(&self) -> Result<Arc<HeContext>, String> {
        let ctx = lib(|| HeContext::new(self.parms(), self.expand, SecurityLevel::None)).map_err(|p| format!("HeContext::new panicked: {}", p.0))?;
        if !ctx.parameters_set() {
            return Err(format!("parameters not set: {:?}", ctx.key_context_data().map(|c| format!("{:?}", c.qualifiers().parameter_error))));
        }
        Ok(ctx)
    }
}

pub fn scheme_name(s: SchemeType) -> &'static str {
    match s { SchemeType::BFV => "BFV", SchemeType::BGV => "BGV", SchemeType::CKKS => "CKKS", SchemeType::None => "None" }
}

/// Primes p ≡ 1 (mod 2n) with exactly `bits` bits; scans downward from 2^bits - 1 skipping
/// `skip` hits first. Independent of the library's prime generator.
pub fn ntt_primes(n: usize, bits: u32, count: usize, skip: usize) -> Vec<u64> {
    let m = 2 * n as u64;
    let hi = (1u64 << bits) - 1;
    let lo = 1u64 << (bits - 1);
    let mut v = hi / m * m + 1;
    if v > hi { if v < m { return vec![]; } v -= m; }
    let mut out = vec![]; let mut skipped = 0;
    while v > lo && out.len() < count {
        if refm::is_prime(v) { if skipped < skip { skipped += 1; } else { out.push(v); } }
        if v < m { break; }
        v -= m;
    }
    out
}

/// Smallest primes ≡ 1 mod 2n at or above 2^(bits-1) (scanning upward).
pub fn ntt_primes_up(n: usize, bits: u32, count: usize) -> Vec<u64> {
    let m = 2 * n as u64;
    let lo = 1u64 << (bits - 1);
    let hi = (1u64 << bits) - 1;
    let mut v = (lo + m - 1) / m * m + 1;
    if v < lo { v += m; }
    let mut out = vec![];
    while v <= hi && out.len() < count { if refm::is_prime(v) { out.push(v); } v += m; }
    out
}

/// distinct coefficient primes with the given bit sizes (None if not enough exist)
pub fn coeff_primes(n: usize, bit_sizes: &[u32], rng: &mut Rng) -> Option<Vec<u64>> {
    let mut used: Vec<u64> = vec![];
    let mut out = vec![];
    for &b in bit_sizes {
        let from_top = rng.bool();
        let cands = if from_top { ntt_primes(n, b, 6 + used.len(), rng.usize_below(3)) } else { ntt_primes_up(n, b, 6 + used.len()) };
        let c = cands.into_iter().find(|c| !used.contains(c))?;
        used.push(c); out.push(c);
    }
    Some(out)
}

// ------------------------------------------------------------------ kit
pub struct Kit {
    pub spec: Spec,
    pub ctx: Arc<HeContext>,
    pub keygen: KeyGenerator,
    pub sk: SecretKey,
    pub pk: PublicKey,
    pub enc: Encryptor,
    pub dec: Decryptor,
    pub eval: Evaluator,
    /// data levels first..last
    pub levels: Vec<Arc<ContextData>>,
    pub batch: Option<BatchEncoder>,
    pub ckks: Option<CKKSEncoder>,
}

impl Kit {
    pub fn new(spec: &Spec) -> Result<Kit, String> {
        let ctx = spec.context()?;
        let r = lib(|| {
            let keygen = KeyGenerator::new(ctx.clone());
            let sk = keygen.secret_key().clone();
            let pk = keygen.create_public_key(false);
            let enc = Encryptor::new(ctx.clone()).set_public_key(pk.clone()).set_secret_key(sk.clone());
            let dec = Decryptor::new(ctx.clone(), sk.clone());
            let eval = Evaluator::new(ctx.clone());
            (keygen, sk, pk, enc, dec, eval)
        }).map_err(|p| format!("kit construction panicked: {}", p.0))?;
        let (keygen, sk, pk, enc, dec, eval) = r;
        let mut levels = vec![];
        let mut cur = ctx.first_context_data();
        while let Some(c) = cur { cur = c.next_context_data(); levels.push(c); }
        let batch = if spec.scheme != SchemeType::CKKS && ctx.first_context_data().unwrap().qualifiers().using_batching {
            lib(|| BatchEncoder::new(ctx.clone())).ok() } else { None };
        let ckks = if spec.scheme == SchemeType::CKKS { lib(|| CKKSEncoder::new(ctx.clone())).ok() } else { None };
        Ok(Kit { spec: spec.clone(), ctx, keygen, sk, pk, enc, dec, eval, levels, batch, ckks })
    }
    pub fn n(&self) -> usize { self.spec.n }
    pub fn t(&self) -> u64 { self.spec.t }
    pub fn level_of(&self, id: &ParmsID) -> Option<usize> { self.levels.iter().position(|l| l.parms_id() == id) }
    pub fn level_qs(&self, level: usize) -> Vec<u64> { self.levels[level].parms().coeff_modulus().iter().map(|m| m.value()).collect() }
    pub fn key_qs(&self) -> Vec<u64> { self.ctx.key_context_data().unwrap().parms().coeff_modulus().iter().map(|m| m.value()).collect() }
    pub fn has_keyswitching(&self) -> bool { self.ctx.using_keyswitching() }
    /// plaintext polynomial (coefficient form, BFV/BGV) from coefficients already reduced mod t
    pub fn plain_from_coeffs(&self, coeffs: &[u64]) -> Plaintext {
        let mut p = Plaintext::new();
        p.resize(coeffs.len().max(1));
        for (i, &c) in coeffs.iter().enumerate() { p.data_mut()[i] = c; }
        p
    }
}

/// Ciphertexts with special structure — all of them valid, all obtained through public evaluator calls — together with the
/// plaintext they encrypt (BFV/BGV: coefficient vector mod t). Random data essentially never has this structure
/// (probability q^-N), so properties quantified over "all ciphertexts" get them as explicit workload items:
///   zero            x - x                      every word of both polynomials is 0; encrypts 0
///   transparent     (x - x) + p                c1 = 0, c0 carries p without noise; encrypts p
///   zero_tail3      (a*b + c) - a*b            size 3 with an all-zero last polynomial; bit-identical to c otherwise; encrypts c
///   doubled         x + x                      every residue even ...; encrypts 2x  (control: ordinary structure)
pub struct Special { pub name: &'static str, pub ct: Ciphertext, pub coeffs: Vec<u64> }

pub fn special_exact(kit: &Kit, a: &[u64], b: &[u64], c: &[u64]) -> Vec<Special> {
    let t = kit.t(); let n = kit.n(); let ev = &kit.eval;
    let pad = |v: &[u64]| { let mut w = v.to_vec(); w.resize(n, 0); w };
    let enc = |v: &[u64]| lib(|| kit.enc.encrypt_new(&kit.plain_from_coeffs(v)));
    let mut out = vec![];
    let (Ok(ca), Ok(cb), Ok(cc)) = (enc(a), enc(b), enc(c)) else { return out };
    if let Ok(z) = lib(|| ev.sub_new(&ca, &ca)) {
        out.push(Special { name: "zero", ct: z.clone(), coeffs: vec![0; n] });
        if let Ok(tr) = lib(|| ev.add_plain_new(&z, &kit.plain_from_coeffs(c))) { out.push(Special { name: "transparent", ct: tr, coeffs: pad(c) }); }
    }
    if let Ok(zt) = lib(|| { let ab = ev.multiply_new(&ca, &cb); let s = ev.add_new(&ab, &cc); ev.sub_new(&s, &ab) }) { out.push(Special { name: "zero_tail3", ct: zt, coeffs: pad(c) }); }
    if let Ok(d) = lib(|| ev.add_new(&ca, &ca)) { out.push(Special { name: "doubled", ct: d, coeffs: pad(a).iter().map(|&x| crate::refm::addmod(x % t, x % t, t)).collect() }); }
    out
}

/// CKKS counterpart (slot vectors, one common scale): zero, transparent, zero_tail3
pub struct SpecialC { pub name: &'static str, pub ct: Ciphertext, pub slots: Vec<num_complex::Complex64> }
pub fn special_ckks(kit: &Kit, a: &[num_complex::Complex64], b: &[num_complex::Complex64], c: &[num_complex::Complex64], scale: f64) -> Vec<SpecialC> {
    let ev = &kit.eval; let Some(en) = kit.ckks.as_ref() else { return vec![] };
    let enc = |v: &[num_complex::Complex64], s: f64| lib(|| kit.enc.encrypt_new(&en.encode_c64_array_new(v, None, s)));
    let mut out = vec![];
    let (Ok(ca), Ok(cb)) = (enc(a, scale), enc(b, scale)) else { return out };
    if let Ok(z) = lib(|| ev.sub_new(&ca, &ca)) {
        out.push(SpecialC { name: "zero", ct: z.clone(), slots: vec![num_complex::Complex64::new(0.0, 0.0); a.len()] });
        if let Ok(tr) = lib(|| ev.add_plain_new(&z, &en.encode_c64_array_new(c, None, scale))) { out.push(SpecialC { name: "transparent", ct: tr, slots: c.to_vec() }); }
    }
    // (a*b + c') - a*b with c' encrypted at the product scale
    if let Ok(zt) = lib(|| { let ab = ev.multiply_new(&ca, &cb); let cc = kit.enc.encrypt_new(&en.encode_c64_array_new(c, None, ab.scale())); let s = ev.add_new(&ab, &cc); ev.sub_new(&s, &ab) }) { out.push(SpecialC { name: "zero_tail3", ct: zt, slots: c.to_vec() }); }
    out
}

/// plaintext -> full-length coefficient vector (zero padded)
pub fn plain_coeffs(p: &Plaintext, n: usize) -> Vec<u64> {
    let mut v = p.data().clone(); v.resize(n, 0); v
}

// ------------------------------------------------------------------ oracle decryptor
pub struct Oracle {
    pub n: usize,
    /// ternary secret, coefficient form
    pub s: Vec<i8>,
}

fn mul_by_ternary(a: &[u64], s: &[i8], q: u64) -> Vec<u64> {
    let n = a.len();
    let mut r = vec![0u64; n];
    for (j, &sj) in s.iter().enumerate() {
        if sj == 0 { continue; }
        for i in 0..n {
            if a[i] == 0 { continue; }
            let k = i + j;
            let (idx, flip) = if k < n { (k, false) } else { (k - n, true) };
            let add = (sj == 1) != flip;
            r[idx] = if add { refm::addmod(r[idx], a[i], q) } else { refm::submod(r[idx], a[i], q) };
        }
    }
    r
}

impl Oracle {
    pub const MAX_N: usize = 1024;
    /// Recover the ternary secret from the stored key (NTT form at the key level) with the
    /// reference inverse transform; checks ternarity and consistency across components.
    pub fn new(ctx: &HeContext, sk: &SecretKey) -> Result<Oracle, String> {
        let kd = ctx.key_context_data().unwrap();
        let n = kd.parms().poly_modulus_degree();
        if n > Self::MAX_N { return Err("degree too large for the oracle decryptor".into()); }
        let qs: Vec<u64> = kd.parms().coeff_modulus().iter().map(|m| m.value()).collect();
        let tables = kd.small_ntt_tables();
        let mut s: Vec<i8> = vec![];
        for (i, &q) in qs.iter().enumerate() {
            let comp = &sk.data()[i * n..(i + 1) * n];
            let c = refm::intt_ref(comp, tables[i].root(), q);
            let si: Result<Vec<i8>, String> = c.iter().map(|&x| if x == 0 { Ok(0) } else if x == 1 { Ok(1) } else if x == q - 1 { Ok(-1) } else { Err(format!("secret key coefficient {} mod {} is not ternary", x, q)) }).collect();
            let si = si?;
            if i == 0 { s = si; } else if s != si { return Err("secret key components disagree".into()); }
        }
        Ok(Oracle { n, s })
    }

    /// per-prime phase [c0 + c1 s + ... ]_{q_i} in coefficient form (component-major)
    pub fn phase_rns(&self, ctx: &HeContext, ct: &Ciphertext) -> Vec<Vec<u64>> {
        let cd = ctx.get_context_data(ct.parms_id()).expect("ciphertext level");
        let qs: Vec<u64> = cd.parms().coeff_modulus().iter().map(|m| m.value()).collect();
        let tables = cd.small_ntt_tables();
        let n = self.n;
        let mut out = vec![];
        for (i, &q) in qs.iter().enumerate() {
            let mut acc = vec![0u64; n];
            for j in (0..ct.size()).rev() {
                let comp = ct.poly_component(j, i);
                let c = if ct.is_ntt_form() { refm::intt_ref(comp, tables[i].root(), q) } else { comp.iter().map(|&x| x % q).collect() };
                // Horner: acc = acc * s + c_j
                acc = mul_by_ternary(&acc, &self.s, q);
                acc = refm::poly_add(&acc, &c, q);
            }
            out.push(acc);
        }
        out
    }

    /// centered phase as big integers, and the level's modulus product
    pub fn phase(&self, ctx: &HeContext, ct: &Ciphertext) -> (Vec<BigI>, BigU) {
        let cd = ctx.get_context_data(ct.parms_id()).expect("ciphertext level");
        let qs: Vec<u64> = cd.parms().coeff_modulus().iter().map(|m| m.value()).collect();
        let crt = refm::Crt::new(&qs).expect("coprime");
        let ph = self.phase_rns(ctx, ct);
        let v = (0..self.n).map(|j| { let r: Vec<u64> = ph.iter().map(|c| c[j]).collect(); crt.compose_centered(&r) }).collect();
        (v, crt.big_q)
    }

    /// BFV: message and the library's notion of invariant noise budget
    pub fn bfv(&self, ctx: &HeContext, ct: &Ciphertext, t: u64) -> (Vec<u64>, usize, BigU) {
        let (ph, q) = self.phase(ctx, ct);
        let mut norm = BigU::zero();
        let msg = ph.iter().map(|x| {
            let tx = x.mul_u64(t);
            let y = centered(&tx.modp(&q), &q).abs();
            if y > norm { norm = y; }
            tx.div_round_half_up(&q).mod_u64(t)
        }).collect();
        let budget = (q.bits() as isize - norm.bits() as isize - 1).max(0) as usize;
        (msg, budget, norm)
    }

    /// BGV: message (correction factor removed) and budget
    pub fn bgv(&self, ctx: &HeContext, ct: &Ciphertext, t: u64) -> (Vec<u64>, usize, BigU) {
        let (ph, q) = self.phase(ctx, ct);
        let finv = refm::invmod(ct.correction_factor() % t, t).unwrap_or(0);
        let mut norm = BigU::zero();
        let msg = ph.iter().map(|x| { let a = x.abs(); if a > norm { norm = a; } refm::mulmod(x.mod_u64(t), finv, t) }).collect();
        let budget = (q.bits() as isize - norm.bits() as isize - 1).max(0) as usize;
        (msg, budget, norm)
    }

    /// CKKS: real coefficient vector phase/scale
    pub fn ckks_coeffs(&self, ctx: &HeContext, ct: &Ciphertext) -> Vec<f64> {
        let (ph, _) = self.phase(ctx, ct);
        ph.iter().map(|x| x.to_f64() / ct.scale()).collect()
    }
}

// ------------------------------------------------------------------ reference embedding (CKKS)
/// e_i = 3^i mod 2N
pub fn slot_exponents(n: usize) -> Vec<usize> {
    let m = 2 * n; let mut e = vec![]; let mut pos = 1usize;
    for _ in 0..n / 2 { e.push(pos); pos = (pos * 3) % m; }
    e
}
fn unit_table(n: usize) -> Vec<C64> {
    // zeta^k, zeta = exp(i*pi/n), k in 0..2n, with exactly reduced angles
    (0..2 * n).map(|k| { let a = std::f64::consts::PI * (k as f64) / (n as f64); C64::new(a.cos(), a.sin()) }).collect()
}
/// slots of the real-coefficient polynomial c: value_i = sum_j c_j zeta^(e_i j)
pub fn embed_decode(c: &[f64]) -> Vec<C64> {
    let n = c.len(); let tab = unit_table(n); let e = slot_exponents(n);
    e.iter().map(|&ei| { let mut acc = C64::new(0.0, 0.0); for j in 0..n { acc += tab[(ei * j) % (2 * n)] * c[j]; } acc }).collect()
}
/// real coefficients of the preimage: c_j = (2/N) sum_i Re(v_i * conj(zeta^(e_i j)))   (values zero padded to N/2)
pub fn embed_encode(values: &[C64], n: usize) -> Vec<f64> {
    let tab = unit_table(n); let e = slot_exponents(n);
    (0..n).map(|j| { let mut acc = 0.0; for (i, v) in values.iter().enumerate() { acc += (v * tab[(e[i] * j) % (2 * n)].conj()).re; } acc * 2.0 / n as f64 }).collect()
}

// ------------------------------------------------------------------ analytic bounds
/// worst-case |error| of one sampled error polynomial coefficient
pub const ERR_MAX: f64 = 21.0;

/// worst-case coefficient norm of the fresh noise polynomial e0 + e1*s - e*u (public key) or e (secret key)
pub fn fresh_noise_bound(n: usize, public_key: bool) -> f64 {
    if public_key { ERR_MAX * (2.0 * n as f64 + 1.0) } else { ERR_MAX }
}
/// additional worst-case noise of one modulus switch (rounding of c0 + c1 s), in units of the new modulus
pub fn modswitch_bound(n: usize) -> f64 { (n as f64 + 1.0) / 2.0 }

pub fn log2_big(q: &BigU) -> f64 {
    // log2 with ~53 bits of the leading part
    let b = q.bits(); if b == 0 { return f64::NEG_INFINITY; }
    let sh = b.saturating_sub(60);
    (q.shr(sh).to_f64()).log2() + sh as f64
}

/// Worst-case double-precision error of the library's CKKS decode path on one slot:
/// (a) decoding a negative coefficient sums word-wise differences (c_j - q_j) * 2^(64 j) / scale of
///     magnitude up to 2^(64 (w+1)) / scale, w = top word index of the coefficient magnitude, each
///     rounded to 53 bits (k+1 terms) -- an artefact of the documented algorithm, so it is part of
///     the allowed "double-precision" term;
/// (b) the forward/inverse floating-point transforms: N log N operations of relative error 2^-53 on
///     values of magnitude <= N * vmax.
pub fn ckks_fp_tolerance(n: usize, k: usize, vmax: f64, scale: f64) -> f64 {
    let x = (vmax + 1.0) * scale * 2.0;
    let w = (x.log2().max(0.0) / 64.0).floor();
    let per_coeff = (k as f64 + 1.0) * 2f64.powf(64.0 * (w + 1.0) - 52.0) / scale;
    (n as f64) * per_coeff + (n * n) as f64 * 2f64.powi(-45) * (vmax + 1.0)
}
