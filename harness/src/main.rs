//! hv — runtime monitors for the Heathcliff properties C01..C20.
//! usage: hv <Cxx|selftest> [--tier quick|thorough] [--seed N] [--jobs N] [--replay file]
#![allow(clippy::all)]
#![allow(dead_code)]

mod big;
mod refm;
mod rt;
mod he;
mod prog;
mod props;

use rt::{Cfg, Tier};
use std::time::Instant;

fn main() {
    let args: Vec<String> = std::env::args().collect();
    if args.len() < 2 { eprintln!("usage: hv <Cxx|selftest> [--tier quick|thorough] [--seed N] [--jobs N] [--replay file]"); std::process::exit(2); }
    let id = args[1].to_uppercase();
    let mut tier = match std::env::var("VERIF_TIER").ok().as_deref() { Some("thorough") => Tier::Thorough, _ => Tier::Quick };
    let mut seed: u64 = std::env::var("VERIF_SEED").ok().and_then(|s| s.trim().parse::<i64>().ok()).map(|x| x as u64).unwrap_or(1);
    let mut jobs: usize = std::env::var("VERIF_JOBS").ok().and_then(|s| s.parse().ok()).unwrap_or_else(|| std::thread::available_parallelism().map(|n| n.get()).unwrap_or(4));
    let scale: f64 = std::env::var("VERIF_SCALE").ok().and_then(|s| s.parse().ok()).unwrap_or(1.0);
    let mut only_case = None;
    let mut tier_explicit = false;
    let mut i = 2;
    while i < args.len() {
        match args[i].as_str() {
            "--tier" => { tier = if args[i + 1] == "thorough" { Tier::Thorough } else { Tier::Quick }; tier_explicit = true; i += 1; }
            "quick" => { tier = Tier::Quick; tier_explicit = true; }
            "thorough" => { tier = Tier::Thorough; tier_explicit = true; }
            "--seed" => { seed = args[i + 1].parse::<i64>().expect("seed") as u64; i += 1; }
            "--jobs" => { jobs = args[i + 1].parse().expect("jobs"); i += 1; }
            "--replay" => {
                let s = std::fs::read_to_string(&args[i + 1]).expect("replay file");
                let v: serde_json::Value = serde_json::from_str(&s).expect("replay json");
                let r = &v["replay"];
                seed = r["seed"].as_u64().expect("seed in replay");
                if !tier_explicit { tier = if r["tier"].as_str() == Some("thorough") { Tier::Thorough } else { Tier::Quick }; }
                only_case = Some((r["group"].as_str().expect("group").to_string(), r["case"].as_u64().expect("case")));
                i += 1;
            }
            x => { eprintln!("unknown argument {}", x); std::process::exit(2); }
        }
        i += 1;
    }
    let verif_dir = std::env::var("VERIF_DIR").unwrap_or_else(|_| "/verif".to_string());
    rt::install_panic_hook();
    // quick-tier default work factors (measured so that each quick check takes roughly 20-30 s on 16 idle cores);
    // VERIF_SCALE overrides. Replays must use the scale of the run that produced them, so it is fixed per tier.
    let scale = if std::env::var("VERIF_SCALE").is_ok() || tier != Tier::Quick { scale } else {
        match id.as_str() { "C01" => 2.0, "C02" => 3.0, "C03" => 6.0, "C04" => 3.0, "C05" => 2.0, "C06" => 5.0, "C07" => 4.0, "C08" => 3.0, "C09" => 2.0, "C10" => 4.0,
            "C11" => 4.0, "C12" => 2.0, "C13" => 3.0, "C14" => 3.0, "C15" => 5.0, "C16" => 3.0, "C18" => 8.0, "C19" => 2.0, "C20" => 4.0, _ => 1.0 }
    };
    let cfg = Cfg { tier, seed, jobs, only_case, scale };
    let started = Instant::now();
    if id == "SELFTEST" {
        std::process::exit(props::selftest::run(&cfg));
    }
    if id == "C17MIRI" {
        std::process::exit(props::c17::miri_scenario());
    }
    // case watchdog: generous (cases are sub-second); VERIF_CASE_DEADLINE_S overrides. C05/C17 have their own finer watchdogs.
    let dl: u64 = std::env::var("VERIF_CASE_DEADLINE_S").ok().and_then(|s| s.parse().ok()).unwrap_or({
        // pure-arithmetic checks run micro-second cases; the others run whole HE pipelines (up to seconds at large N)
        let fast = matches!(id.as_str(), "C08" | "C09" | "C10" | "C11" | "C13" | "C15" | "C16");
        match (fast, cfg.quick()) { (true, true) => 120, (true, false) => 600, (false, true) => 420, (false, false) => 1500 }
    });
    rt::install_crash_handler(id.clone(), cfg.clone(), verif_dir.clone());
    rt::start_case_watchdog(id.clone(), cfg.clone(), verif_dir.clone(), std::time::Duration::from_secs(dl));
    let mut report = rt::Report::new();
    let meta = match props::dispatch(&id, &cfg, &mut report) {
        Some(m) => m,
        None => { eprintln!("unknown property {}", id); std::process::exit(2); }
    };
    let out = rt::finish(&cfg, &meta, report, started, &verif_dir);
    std::process::exit(out.exit_code);
}
