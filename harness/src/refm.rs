//! Reference mathematics (independent of heathcliff::util): modular arithmetic through
//! u128, deterministic Miller-Rabin, schoolbook negacyclic polynomial arithmetic, the
//! definition of the negacyclic NTT, CRT.

use crate::big::{BigI, BigU};

#[inline] pub fn mulmod(a: u64, b: u64, q: u64) -> u64 { ((a as u128 * b as u128) % q as u128) as u64 }
#[inline] pub fn addmod(a: u64, b: u64, q: u64) -> u64 { ((a as u128 + b as u128) % q as u128) as u64 }
#[inline] pub fn submod(a: u64, b: u64, q: u64) -> u64 { ((a as u128 + q as u128 - (b % q) as u128) % q as u128) as u64 }
#[inline] pub fn negmod(a: u64, q: u64) -> u64 { let a = a % q; if a == 0 { 0 } else { q - a } }

pub fn powmod(mut b: u64, mut e: u64, q: u64) -> u64 {
    if q == 1 { return 0; }
    let mut r = 1u64; b %= q;
    while e > 0 { if e & 1 == 1 { r = mulmod(r, b, q); } b = mulmod(b, b, q); e >>= 1; }
    r
}

pub fn gcd(mut a: u64, mut b: u64) -> u64 { while b != 0 { let t = a % b; a = b; b = t; } a }

/// extended gcd on i128: returns (g, x, y) with a*x + b*y = g
pub fn xgcd(a: u64, b: u64) -> (u64, i128, i128) {
    let (mut r0, mut r1) = (a as i128, b as i128);
    let (mut s0, mut s1) = (1i128, 0i128);
    let (mut t0, mut t1) = (0i128, 1i128);
    while r1 != 0 {
        let q = r0 / r1;
        let t = r0 - q * r1; r0 = r1; r1 = t;
        let t = s0 - q * s1; s0 = s1; s1 = t;
        let t = t0 - q * t1; t0 = t1; t1 = t;
    }
    (r0 as u64, s0, t0)
}

pub fn invmod(a: u64, q: u64) -> Option<u64> {
    if q == 0 { return None; }
    let a = a % q;
    if q == 1 { return Some(0); }
    let (g, x, _) = xgcd(a, q);
    if g != 1 { return None; }
    let r = x.rem_euclid(q as i128);
    Some(r as u64)
}

/// deterministic Miller-Rabin for all 64-bit inputs
pub fn is_prime(n: u64) -> bool {
    if n < 2 { return false; }
    for p in [2u64, 3, 5, 7, 11, 13, 17, 19, 23, 29, 31, 37] {
        if n == p { return true; }
        if n % p == 0 { return false; }
    }
    let mut d = n - 1; let mut s = 0;
    while d % 2 == 0 { d /= 2; s += 1; }
    'outer: for a in [2u64, 3, 5, 7, 11, 13, 17, 19, 23, 29, 31, 37] {
        let mut x = powmod(a, d, n);
        if x == 1 || x == n - 1 { continue; }
        for _ in 0..s - 1 {
            x = mulmod(x, x, n);
            if x == n - 1 { continue 'outer; }
        }
        return false;
    }
    true
}

pub fn bit_len(x: u64) -> usize { 64 - x.leading_zeros() as usize }

pub fn bitrev(x: usize, bits: usize) -> usize {
    let mut r = 0; for i in 0..bits { if (x >> i) & 1 == 1 { r |= 1 << (bits - 1 - i); } } r
}

/// Is psi a primitive 2N-th root of unity mod q (N a power of two)?  <=> psi^N == -1
pub fn is_primitive_2n_root(psi: u64, n: usize, q: u64) -> bool { q > 1 && powmod(psi, n as u64, q) == q - 1 }

/// smallest primitive 2N-th root of unity modulo prime q (q ≡ 1 mod 2N), by brute force over
/// the orbit of any primitive root found by trial; None if none exists.
pub fn min_primitive_2n_root(n: usize, q: u64) -> Option<u64> {
    let m = 2 * n as u64;
    if q < 2 || (q - 1) % m != 0 { return None; }
    // find some primitive root: x^((q-1)/m) for x = 2,3,...
    let e = (q - 1) / m;
    let mut root = None;
    for x in 2..q.min(100000) {
        let c = powmod(x, e, q);
        if is_primitive_2n_root(c, n, q) { root = Some(c); break; }
    }
    let root = root?;
    // all primitive roots are root^odd
    let sq = mulmod(root, root, q);
    let mut cur = root; let mut best = root;
    for _ in 0..n { if cur < best { best = cur; } cur = mulmod(cur, sq, q); }
    Some(best)
}

/// c = a*b mod (X^n + 1, q), schoolbook
pub fn negacyclic_mul(a: &[u64], b: &[u64], q: u64) -> Vec<u64> {
    let n = a.len();
    assert_eq!(b.len(), n);
    let mut r = vec![0u64; n];
    for i in 0..n {
        if a[i] == 0 { continue; }
        for j in 0..n {
            if b[j] == 0 { continue; }
            let p = mulmod(a[i] % q, b[j] % q, q);
            let k = i + j;
            if k < n { r[k] = addmod(r[k], p, q); } else { r[k - n] = submod(r[k - n], p, q); }
        }
    }
    r
}

pub fn poly_add(a: &[u64], b: &[u64], q: u64) -> Vec<u64> { a.iter().zip(b).map(|(&x, &y)| addmod(x % q, y % q, q)).collect() }
pub fn poly_sub(a: &[u64], b: &[u64], q: u64) -> Vec<u64> { a.iter().zip(b).map(|(&x, &y)| submod(x % q, y % q, q)).collect() }
pub fn poly_neg(a: &[u64], q: u64) -> Vec<u64> { a.iter().map(|&x| negmod(x, q)).collect() }
pub fn poly_scale(a: &[u64], s: u64, q: u64) -> Vec<u64> { a.iter().map(|&x| mulmod(x % q, s % q, q)).collect() }

/// sigma_g: X -> X^g on Z_q[X]/(X^n+1)
pub fn automorphism(a: &[u64], g: usize, q: u64) -> Vec<u64> {
    let n = a.len();
    let mut r = vec![0u64; n];
    for i in 0..n {
        let k = (i * g) % (2 * n);
        if k < n { r[k] = addmod(r[k], a[i] % q, q); } else { r[k - n] = submod(r[k - n], a[i] % q, q); }
    }
    r
}

/// X^s * a mod (X^n+1, q), s in [0, 2n)
pub fn monomial_shift(a: &[u64], s: usize, q: u64) -> Vec<u64> {
    let n = a.len();
    let mut r = vec![0u64; n];
    for i in 0..n {
        let k = (i + s) % (2 * n);
        if k < n { r[k] = a[i] % q; } else { r[k - n] = negmod(a[i], q); }
    }
    r
}

/// evaluate polynomial at x mod q (Horner)
pub fn horner(a: &[u64], x: u64, q: u64) -> u64 {
    let mut r = 0u64;
    for &c in a.iter().rev() { r = addmod(mulmod(r, x, q), c % q, q); }
    r
}

/// The documented forward negacyclic NTT: out[i] = a(psi^(2*bitrev(i)+1)).
pub fn ntt_ref(a: &[u64], psi: u64, q: u64) -> Vec<u64> {
    let n = a.len();
    let logn = n.trailing_zeros() as usize;
    // power table of psi
    let mut pw = vec![1u64; 2 * n];
    for i in 1..2 * n { pw[i] = mulmod(pw[i - 1], psi, q); }
    let mut out = vec![0u64; n];
    for i in 0..n {
        let e = 2 * bitrev(i, logn) + 1;
        let mut acc = 0u128;
        let mut idx = 0usize;
        for j in 0..n {
            acc += a[j] as u128 % q as u128 * pw[idx] as u128 % q as u128;
            idx += e; if idx >= 2 * n { idx -= 2 * n; }
            if j & 7 == 7 { acc %= q as u128; }
        }
        out[i] = (acc % q as u128) as u64;
    }
    out
}

/// Inverse of ntt_ref by the inverse formula: a[j] = n^-1 * sum_i out[i] * psi^(-(2*bitrev(i)+1) j)
pub fn intt_ref(v: &[u64], psi: u64, q: u64) -> Vec<u64> {
    let n = v.len();
    let logn = n.trailing_zeros() as usize;
    let ipsi = invmod(psi, q).expect("psi invertible");
    let ninv = invmod(n as u64 % q, q).expect("n invertible");
    let mut pw = vec![1u64; 2 * n];
    for i in 1..2 * n { pw[i] = mulmod(pw[i - 1], ipsi, q); }
    let es: Vec<usize> = (0..n).map(|i| 2 * bitrev(i, logn) + 1).collect();
    let mut out = vec![0u64; n];
    for j in 0..n {
        let mut acc = 0u128;
        for i in 0..n {
            let idx = (es[i] * j) % (2 * n);
            acc += v[i] as u128 % q as u128 * pw[idx] as u128 % q as u128;
            if i & 7 == 7 { acc %= q as u128; }
        }
        out[j] = mulmod((acc % q as u128) as u64, ninv, q);
    }
    out
}

/// CRT: product of moduli
pub fn product(qs: &[u64]) -> BigU { qs.iter().fold(BigU::one(), |a, &q| a.mul_u64(q)) }

/// CRT compose residues (r_i mod q_i) -> integer in [0, Q). Moduli pairwise coprime.
pub struct Crt { pub qs: Vec<u64>, pub big_q: BigU, punct: Vec<BigU>, inv: Vec<u64> }
impl Crt {
    pub fn new(qs: &[u64]) -> Option<Crt> {
        let big_q = product(qs);
        let mut punct = vec![]; let mut inv = vec![];
        for &q in qs {
            let p = big_q.div(&BigU::from_u64(q));
            let i = invmod(p.rem_u64(q), q)?;
            punct.push(p); inv.push(i);
        }
        Some(Crt { qs: qs.to_vec(), big_q, punct, inv })
    }
    pub fn compose(&self, r: &[u64]) -> BigU {
        let mut acc = BigU::zero();
        for i in 0..self.qs.len() {
            let c = mulmod(r[i] % self.qs[i], self.inv[i], self.qs[i]);
            acc = acc.add(&self.punct[i].mul_u64(c));
        }
        acc.rem(&self.big_q)
    }
    pub fn compose_centered(&self, r: &[u64]) -> BigI { crate::big::centered(&self.compose(r), &self.big_q) }
    pub fn decompose(&self, x: &BigU) -> Vec<u64> { self.qs.iter().map(|&q| x.rem_u64(q)).collect() }
    pub fn decompose_i(&self, x: &BigI) -> Vec<u64> { self.qs.iter().map(|&q| x.mod_u64(q)).collect() }
}

/// RNS polynomial (k components of n words, component-major as the library stores them)
/// -> n centered big integers.
pub fn lift_rns_poly(data: &[u64], n: usize, crt: &Crt) -> Vec<BigI> {
    let k = crt.qs.len();
    assert_eq!(data.len(), n * k);
    (0..n).map(|j| { let r: Vec<u64> = (0..k).map(|i| data[i * n + j]).collect(); crt.compose_centered(&r) }).collect()
}
