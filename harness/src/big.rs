//! Minimal arbitrary-precision integers, written from the definitions and sharing no
//! code with `heathcliff::util`. Cross-checked against Python integers by `hv selftest`
//! + `py/check_big.py` at setup.

use std::cmp::Ordering;

#[derive(Clone, Debug, PartialEq, Eq, Hash, Default)]
pub struct BigU {
    /// little-endian limbs, no trailing zero limbs (zero = empty)
    pub l: Vec<u64>,
}

impl BigU {
    pub fn zero() -> Self { BigU { l: vec![] } }
    pub fn one() -> Self { BigU { l: vec![1] } }
    pub fn from_u64(x: u64) -> Self { let mut r = BigU { l: vec![x] }; r.trim(); r }
    pub fn from_u128(x: u128) -> Self { let mut r = BigU { l: vec![x as u64, (x >> 64) as u64] }; r.trim(); r }
    pub fn from_limbs(l: &[u64]) -> Self { let mut r = BigU { l: l.to_vec() }; r.trim(); r }
    pub fn pow2(k: usize) -> Self {
        let mut l = vec![0u64; k / 64 + 1];
        l[k / 64] = 1u64 << (k % 64);
        BigU { l }
    }
    fn trim(&mut self) { while let Some(&0) = self.l.last() { self.l.pop(); } }
    pub fn is_zero(&self) -> bool { self.l.is_empty() }
    pub fn bits(&self) -> usize {
        match self.l.last() { None => 0, Some(&t) => 64 * (self.l.len() - 1) + (64 - t.leading_zeros() as usize) }
    }
    pub fn bit(&self, i: usize) -> bool {
        let w = i / 64; if w >= self.l.len() { false } else { (self.l[w] >> (i % 64)) & 1 == 1 }
    }
    pub fn to_u64(&self) -> Option<u64> {
        match self.l.len() { 0 => Some(0), 1 => Some(self.l[0]), _ => None }
    }
    pub fn to_u128(&self) -> Option<u128> {
        match self.l.len() { 0 => Some(0), 1 => Some(self.l[0] as u128), 2 => Some(self.l[0] as u128 | ((self.l[1] as u128) << 64)), _ => None }
    }
    pub fn low_u64(&self) -> u64 { self.l.first().copied().unwrap_or(0) }
    /// limbs padded (or truncated!) to exactly n words
    pub fn to_limbs(&self, n: usize) -> Vec<u64> {
        let mut v = self.l.clone(); v.resize(n, 0); v
    }
    pub fn to_f64(&self) -> f64 {
        let mut r = 0.0f64;
        for &w in self.l.iter().rev() { r = r * 18446744073709551616.0 + w as f64; }
        r
    }
    pub fn cmp_u(&self, o: &BigU) -> Ordering {
        if self.l.len() != o.l.len() { return self.l.len().cmp(&o.l.len()); }
        for i in (0..self.l.len()).rev() {
            if self.l[i] != o.l[i] { return self.l[i].cmp(&o.l[i]); }
        }
        Ordering::Equal
    }
    pub fn add(&self, o: &BigU) -> BigU {
        let n = self.l.len().max(o.l.len());
        let mut r = Vec::with_capacity(n + 1);
        let mut c = 0u128;
        for i in 0..n {
            let a = *self.l.get(i).unwrap_or(&0) as u128;
            let b = *o.l.get(i).unwrap_or(&0) as u128;
            let s = a + b + c;
            r.push(s as u64);
            c = s >> 64;
        }
        if c > 0 { r.push(c as u64); }
        let mut r = BigU { l: r }; r.trim(); r
    }
    /// self - o, panics if o > self
    pub fn sub(&self, o: &BigU) -> BigU {
        assert!(self.cmp_u(o) != Ordering::Less, "BigU::sub underflow");
        let mut r = Vec::with_capacity(self.l.len());
        let mut borrow = 0i128;
        for i in 0..self.l.len() {
            let a = self.l[i] as i128;
            let b = *o.l.get(i).unwrap_or(&0) as i128;
            let mut d = a - b - borrow;
            if d < 0 { d += 1i128 << 64; borrow = 1; } else { borrow = 0; }
            r.push(d as u64);
        }
        let mut r = BigU { l: r }; r.trim(); r
    }
    pub fn mul(&self, o: &BigU) -> BigU {
        if self.is_zero() || o.is_zero() { return BigU::zero(); }
        let mut r = vec![0u64; self.l.len() + o.l.len()];
        for i in 0..self.l.len() {
            let mut c = 0u128;
            let a = self.l[i] as u128;
            for j in 0..o.l.len() {
                let t = a * (o.l[j] as u128) + r[i + j] as u128 + c;
                r[i + j] = t as u64;
                c = t >> 64;
            }
            let mut k = i + o.l.len();
            while c > 0 {
                let t = r[k] as u128 + c;
                r[k] = t as u64;
                c = t >> 64;
                k += 1;
            }
        }
        let mut r = BigU { l: r }; r.trim(); r
    }
    pub fn mul_u64(&self, x: u64) -> BigU { self.mul(&BigU::from_u64(x)) }
    pub fn add_u64(&self, x: u64) -> BigU { self.add(&BigU::from_u64(x)) }
    pub fn shl(&self, k: usize) -> BigU {
        if self.is_zero() { return BigU::zero(); }
        let w = k / 64; let b = k % 64;
        let mut r = vec![0u64; self.l.len() + w + 1];
        for i in 0..self.l.len() {
            r[i + w] |= self.l[i] << b;
            if b > 0 { r[i + w + 1] |= self.l[i] >> (64 - b); }
        }
        let mut r = BigU { l: r }; r.trim(); r
    }
    pub fn shr(&self, k: usize) -> BigU {
        let w = k / 64; let b = k % 64;
        if w >= self.l.len() { return BigU::zero(); }
        let mut r = vec![0u64; self.l.len() - w];
        for i in 0..r.len() {
            r[i] = self.l[i + w] >> b;
            if b > 0 && i + w + 1 < self.l.len() { r[i] |= self.l[i + w + 1] << (64 - b); }
        }
        let mut r = BigU { l: r }; r.trim(); r
    }
    /// (quotient, remainder); bitwise restoring division on limbs with a fast path for
    /// single-limb divisors. Simple rather than fast: correctness is what matters here.
    pub fn divrem(&self, d: &BigU) -> (BigU, BigU) {
        assert!(!d.is_zero(), "BigU division by zero");
        if self.cmp_u(d) == Ordering::Less { return (BigU::zero(), self.clone()); }
        if d.l.len() == 1 {
            let dv = d.l[0] as u128;
            let mut q = vec![0u64; self.l.len()];
            let mut rem = 0u128;
            for i in (0..self.l.len()).rev() {
                let cur = (rem << 64) | self.l[i] as u128;
                q[i] = (cur / dv) as u64;
                rem = cur % dv;
            }
            let mut q = BigU { l: q }; q.trim();
            return (q, BigU::from_u64(rem as u64));
        }
        // schoolbook base-2 long division, processing bits from the top
        let nbits = self.bits();
        let mut q = vec![0u64; self.l.len()];
        let mut rem = BigU::zero();
        for i in (0..nbits).rev() {
            rem = rem.shl(1);
            if self.bit(i) {
                if rem.l.is_empty() { rem.l.push(1); } else { rem.l[0] |= 1; }
            }
            if rem.cmp_u(d) != Ordering::Less {
                rem = rem.sub(d);
                q[i / 64] |= 1u64 << (i % 64);
            }
        }
        let mut q = BigU { l: q }; q.trim();
        (q, rem)
    }
    pub fn rem(&self, d: &BigU) -> BigU { self.divrem(d).1 }
    pub fn div(&self, d: &BigU) -> BigU { self.divrem(d).0 }
    pub fn rem_u64(&self, d: u64) -> u64 {
        let dv = d as u128;
        let mut rem = 0u128;
        for i in (0..self.l.len()).rev() { rem = ((rem << 64) | self.l[i] as u128) % dv; }
        rem as u64
    }
    pub fn to_hex(&self) -> String {
        if self.is_zero() { return "0".into(); }
        let mut s = format!("{:x}", self.l[self.l.len() - 1]);
        for i in (0..self.l.len() - 1).rev() { s += &format!("{:016x}", self.l[i]); }
        s
    }
    pub fn from_hex(s: &str) -> BigU {
        let mut l = vec![];
        let b = s.as_bytes();
        let mut end = b.len();
        while end > 0 {
            let start = end.saturating_sub(16);
            l.push(u64::from_str_radix(&s[start..end], 16).unwrap());
            end = start;
        }
        let mut r = BigU { l }; r.trim(); r
    }
    pub fn to_dec(&self) -> String {
        if self.is_zero() { return "0".into(); }
        let mut parts = vec![];
        let mut cur = self.clone();
        let ten19 = BigU::from_u64(10_000_000_000_000_000_000);
        while !cur.is_zero() {
            let (q, r) = cur.divrem(&ten19);
            parts.push(r.low_u64());
            cur = q;
        }
        let mut s = format!("{}", parts[parts.len() - 1]);
        for i in (0..parts.len() - 1).rev() { s += &format!("{:019}", parts[i]); }
        s
    }
}

impl PartialOrd for BigU { fn partial_cmp(&self, o: &Self) -> Option<Ordering> { Some(self.cmp_u(o)) } }
impl Ord for BigU { fn cmp(&self, o: &Self) -> Ordering { self.cmp_u(o) } }

/// Signed big integer (sign-magnitude; zero is never negative).
#[derive(Clone, Debug, PartialEq, Eq, Hash, Default)]
pub struct BigI { pub neg: bool, pub m: BigU }

impl BigI {
    pub fn zero() -> Self { BigI { neg: false, m: BigU::zero() } }
    pub fn from_u(m: BigU) -> Self { BigI { neg: false, m } }
    pub fn from_i64(x: i64) -> Self { BigI { neg: x < 0, m: BigU::from_u64(x.unsigned_abs()) } }
    pub fn from_i128(x: i128) -> Self { BigI { neg: x < 0, m: BigU::from_u128(x.unsigned_abs()) } }
    fn norm(mut self) -> Self { if self.m.is_zero() { self.neg = false; } self }
    pub fn is_zero(&self) -> bool { self.m.is_zero() }
    pub fn neg(&self) -> BigI { BigI { neg: !self.neg, m: self.m.clone() }.norm() }
    pub fn abs(&self) -> BigU { self.m.clone() }
    pub fn add(&self, o: &BigI) -> BigI {
        if self.neg == o.neg { return BigI { neg: self.neg, m: self.m.add(&o.m) }.norm(); }
        match self.m.cmp_u(&o.m) {
            Ordering::Equal => BigI::zero(),
            Ordering::Greater => BigI { neg: self.neg, m: self.m.sub(&o.m) }.norm(),
            Ordering::Less => BigI { neg: o.neg, m: o.m.sub(&self.m) }.norm(),
        }
    }
    pub fn sub(&self, o: &BigI) -> BigI { self.add(&o.neg()) }
    pub fn mul(&self, o: &BigI) -> BigI { BigI { neg: self.neg != o.neg, m: self.m.mul(&o.m) }.norm() }
    pub fn mul_u64(&self, x: u64) -> BigI { BigI { neg: self.neg, m: self.m.mul_u64(x) }.norm() }
    /// floor division and non-negative remainder for a positive modulus
    pub fn divmod_floor(&self, d: &BigU) -> (BigI, BigU) {
        let (q, r) = self.m.divrem(d);
        if !self.neg { (BigI::from_u(q), r) }
        else if r.is_zero() { (BigI { neg: true, m: q }.norm(), r) }
        else { (BigI { neg: true, m: q.add_u64(1) }, d.sub(&r)) }
    }
    /// non-negative residue modulo d
    pub fn modp(&self, d: &BigU) -> BigU { self.divmod_floor(d).1 }
    pub fn mod_u64(&self, d: u64) -> u64 {
        let r = self.m.rem_u64(d);
        if self.neg && r != 0 { d - r } else { r }
    }
    /// round(self / d) to nearest, ties away from... ties toward +infinity (floor((2x+d)/(2d)))
    pub fn div_round_half_up(&self, d: &BigU) -> BigI {
        let two = BigI { neg: self.neg, m: self.m.shl(1) };
        let num = two.add(&BigI::from_u(d.clone()));
        num.divmod_floor(&d.shl(1)).0
    }
    pub fn cmp_i(&self, o: &BigI) -> Ordering {
        match (self.neg, o.neg) {
            (false, true) => Ordering::Greater,
            (true, false) => Ordering::Less,
            (false, false) => self.m.cmp_u(&o.m),
            (true, true) => o.m.cmp_u(&self.m),
        }
    }
    pub fn to_f64(&self) -> f64 { let v = self.m.to_f64(); if self.neg { -v } else { v } }
    pub fn to_dec(&self) -> String { if self.neg { format!("-{}", self.m.to_dec()) } else { self.m.to_dec() } }
    pub fn to_i128(&self) -> Option<i128> {
        let v = self.m.to_u128()?;
        if v > i128::MAX as u128 { return None; }
        Some(if self.neg { -(v as i128) } else { v as i128 })
    }
}

/// centered representative of x mod q in (-q/2, q/2]  (x in [0,q))
pub fn centered(x: &BigU, q: &BigU) -> BigI {
    // x > q/2  <=> 2x > q
    if x.shl(1).cmp_u(q) == Ordering::Greater { BigI { neg: true, m: q.sub(x) } } else { BigI::from_u(x.clone()) }
}
