#!/usr/bin/env python3
"""Validate an evidence file against the schema (a copy of which is kept in /verif/py)."""
import json, sys, os
here = os.path.dirname(os.path.abspath(__file__))
schema_path = "/root/.vp/EVIDENCE.schema.json"
if not os.path.exists(schema_path):
    schema_path = os.path.join(here, "EVIDENCE.schema.json")
schema = json.load(open(schema_path))
doc = json.load(open(sys.argv[1]))
try:
    import jsonschema
    jsonschema.validate(doc, schema)
except ImportError:
    for k in schema["required"]:
        assert k in doc, k
except Exception as e:
    print("evidence invalid:", str(e)[:500])
    sys.exit(1)
sys.exit(0)
