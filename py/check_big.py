#!/usr/bin/env python3
"""Re-evaluates the harness's big-integer operations (JSONL on stdin) with Python integers."""
import sys, json
n = bad = 0
for line in sys.stdin:
    line = line.strip()
    if not line: continue
    r = json.loads(line); n += 1
    a = int(r["a"], 16); b = int(r["b"], 16); sh = r["sh"]
    ok = (int(r["add"], 16) == a + b and int(r["mul"], 16) == a * b and int(r["shl"], 16) == a << sh
          and int(r["shr"], 16) == a >> sh and r["bits"] == a.bit_length() and int(r["dec"]) == a)
    if "sub" in r: ok = ok and int(r["sub"], 16) == a - b
    if "div" in r:
        ok = ok and int(r["div"], 16) == a // b and int(r["rem"], 16) == a % b
        ok = ok and int(r["nfq"]) == (-a) // b and int(r["nfr"]) == (-a) % b
        ok = ok and int(r["rnd"]) == (2 * a + b) // (2 * b) and int(r["nrnd"]) == (-2 * a + b) // (2 * b)
    if not ok:
        bad += 1
        if bad < 5: print("MISMATCH", line, file=sys.stderr)
print(f"check_big: {n} records, {bad} mismatches")
sys.exit(1 if bad or n == 0 else 0)
