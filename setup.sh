#!/usr/bin/env bash
# MANIFEST.setup_cmd: offline build of the harness + self-test of the reference layer.
set -eu
cd "$(dirname "$0")"
export CARGO_NET_OFFLINE=true
export CARGO_TARGET_DIR="$(pwd)/target"
cargo build --release --offline --manifest-path harness/Cargo.toml
./target/release/hv selftest | python3 py/check_big.py
echo "setup ok"
