#!/usr/bin/env bash
# MANIFEST.setup_cmd: offline build of the harness + self-test of the reference layer.
set -eu
cd "$(dirname "$0")"
export CARGO_NET_OFFLINE=true
export CARGO_TARGET_DIR="$(pwd)/target"
cargo build --release --offline --manifest-path harness/Cargo.toml
./target/release/hv selftest | python3 py/check_big.py
# ThreadSanitizer variant for C17 (best effort: C17 notes it when the sanitizer pass is skipped)
RUSTFLAGS="-Zsanitizer=thread" CARGO_TARGET_DIR="$(pwd)/target-tsan" cargo +nightly build -Zbuild-std --target x86_64-unknown-linux-gnu \
  --release --offline --manifest-path harness/Cargo.toml || echo "warning: ThreadSanitizer build failed"
echo "setup ok"
