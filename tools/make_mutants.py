#!/usr/bin/env python3
"""Generates /verif/mutants/<prop>_<name>.diff from (file, old, new) replacements against /repo's current tree.
Mutants are used only to show that each monitor can fire (tools/run_mutants.sh); none is ever applied to /repo."""
import subprocess, os, sys, tempfile
M = [
 # C01
 ("C01","mul_add_plain_carry","src/util/scaling_variant.rs","numerator[1] = prod[1] + carry as u64;\n        // Compute fix[0] = floor(numerator / t)\n        util::divide_u128_u64_inplace(&mut numerator, plain_modulus.value(), &mut fix);","numerator[1] = prod[1];\n        // Compute fix[0] = floor(numerator / t)\n        util::divide_u128_u64_inplace(&mut numerator, plain_modulus.value(), &mut fix);"),
 ("C01","pk_modswitch_skips_c1","src/encryptor.rs","                for i in 0..temp.size() {\n                    if context_data.is_ckks() {","                for i in 0..1 {\n                    if context_data.is_ckks() {"),
 ("C01","expand_seed_offset","src/text.rs","self.poly_component_mut(1, 0).as_mut_ptr().offset(1) as *mut u8;\n            let seed_slice = std::slice::from_raw_parts(seed_ptr, prng_seed_byte_count);","self.poly_component_mut(1, 0).as_mut_ptr().offset(2) as *mut u8;\n            let seed_slice = std::slice::from_raw_parts(seed_ptr, prng_seed_byte_count);"),
 ("C01","symmetric_no_negate","src/util/rlwe.rs","        polymod::negate_inplace_p(destination.poly_mut(0), coeff_count, coeff_modulus);\n\n        if !is_ntt_form && !save_seed {","        if is_ntt_form { polymod::negate_inplace_p(destination.poly_mut(0), coeff_count, coeff_modulus); }\n\n        if !is_ntt_form && !save_seed {"),
 # C02
 ("C02","multiply_unequal_regression","src/evaluator.rs","polymod::ntt_lazy_ps(&mut encrypted2_Bsk, encrypted2_size, coeff_count, base_Bsk_ntt_tables);","polymod::ntt_lazy_ps(&mut encrypted2_Bsk, encrypted1_size, coeff_count, base_Bsk_ntt_tables);"),
 ("C02","balance_returns_e1","src/evaluator.rs","(util::multiply_u64_mod(e1, factor1, plain_modulus), e1, e2)","(e1, e1, e2)"),
 ("C02","sub_tail_not_negated","src/evaluator.rs","                if is_subtract {\n                    polymod::negate_inplace_ps(","                if is_subtract && ciphertext1_size > 2 {\n                    polymod::negate_inplace_ps("),
 ("C02","bgv_multiply_cf_sum","src/evaluator.rs","        encrypted1.polys_mut(0, dest_size).copy_from_slice(&temp);\n        encrypted1.set_correction_factor(\n            util::multiply_u64_mod(","        encrypted1.polys_mut(0, dest_size).copy_from_slice(&temp);\n        encrypted1.set_correction_factor(\n            util::add_u64_mod("),
 # C03
 ("C03","ckks_multiply_scale_sum","src/evaluator.rs","        encrypted1.data_mut().copy_from_slice(&temp);\n        encrypted1.set_scale(encrypted1.scale() * encrypted2.scale());","        encrypted1.data_mut().copy_from_slice(&temp);\n        encrypted1.set_scale(encrypted1.scale() + encrypted2.scale());"),
 ("C03","rescale_divides_by_first_prime","src/evaluator.rs","destination.set_scale(encrypted.scale() / parms.coeff_modulus().last().unwrap().value() as f64);","destination.set_scale(encrypted.scale() / parms.coeff_modulus().first().unwrap().value() as f64);"),
 ("C03","no_scale_bound_check","src/evaluator.rs","        encrypted1.set_scale(encrypted1.scale() * encrypted2.scale());\n        if !Self::is_scale_within_bounds(encrypted1.scale(), &context_data) {\n            panic!(\"[Invalid argument] Scale out of bounds\");\n        }","        encrypted1.set_scale(encrypted1.scale() * encrypted2.scale());"),
 ("C03","match_scale_loose","src/evaluator.rs","        util::are_close_f64(ciphertext1.scale(), ciphertext2.scale())","        (ciphertext1.scale() / ciphertext2.scale() - 1.0).abs() < 1e-6"),
 # C04
 ("C04","galois_generator_5","src/util/galois.rs","pub(crate) const GALOIS_GENERATOR: usize = 3;","pub(crate) const GALOIS_GENERATOR: usize = 5;"),
 ("C04","naf_sign","src/util/number_theory.rs","if zi != 0 {res.push((if sign {-zi} else {zi}) * (1 << i));}","if zi != 0 {res.push(zi * (1 << i));}"),
 ("C04","negative_step_offset","src/util/galois.rs","let step = if sign {(n>>1) - pos_step} else {pos_step};","let step = if sign {(n>>1) - pos_step + 1} else {pos_step};"),
 ("C04","keyswitch_wrong_special_row","src/evaluator.rs","let key_index =  if i == decomp_modulus_size {key_modulus_size - 1} else {i};","let key_index =  if i == decomp_modulus_size {decomp_modulus_size} else {i};"),
 # C05
 ("C05","rescale_to_loop_regression","src/evaluator.rs","                while destination.parms_id() != parms_id {\n                    let current = destination.clone();\n                    self.mod_switch_scale_to_next_internal(&current, destination);","                while encrypted.parms_id() != parms_id {\n                    let current = destination.clone();\n                    self.mod_switch_scale_to_next_internal(&current, destination);"),
 ("C05","upward_check_off_by_one","src/evaluator.rs","        if context_data.chain_index() < target_context_data.chain_index() {\n            panic!(\"[Invalid argument] Cannot mod switch to a higher level\");\n        }\n        while encrypted.parms_id() != parms_id {","        if context_data.chain_index() + 1 < target_context_data.chain_index() {\n            panic!(\"[Invalid argument] Cannot mod switch to a higher level\");\n        }\n        while encrypted.parms_id() != parms_id {"),
 ("C05","bgv_forgets_cf","src/evaluator.rs","        } else if scheme == SchemeType::BGV {\n            destination.set_correction_factor(util::multiply_u64_mod(","        } else if scheme == SchemeType::BGV && encrypted_size > 2 {\n            destination.set_correction_factor(util::multiply_u64_mod("),
 ("C05","rescale_scale_multiplied","src/evaluator.rs","destination.set_scale(encrypted.scale() / parms.coeff_modulus().last().unwrap().value() as f64);","destination.set_scale(encrypted.scale() * parms.coeff_modulus().last().unwrap().value() as f64);"),
 # C06
 ("C06","negate_no_check","src/evaluator.rs","    pub fn negate_inplace(&self, ciphertext: &mut Ciphertext) {\n        self.check_ciphertext(ciphertext); // Verify parameters","    pub fn negate_inplace(&self, ciphertext: &mut Ciphertext) {"),
 ("C06","add_dest_skips_clone","src/evaluator.rs","    pub fn add(&self, ciphertext1: &Ciphertext, ciphertext2: &Ciphertext, destination: &mut Ciphertext) {\n        *destination = ciphertext1.clone();","    pub fn add(&self, ciphertext1: &Ciphertext, ciphertext2: &Ciphertext, destination: &mut Ciphertext) {\n        if destination.size() != ciphertext1.size() || destination.parms_id() != ciphertext1.parms_id() { *destination = ciphertext1.clone(); }"),
 ("C06","data_valid_gt","src/valcheck.rs","                for k in 0..poly_modulus_degree {\n                    if self.data_at(offset + k) >= modulus {return false;}\n                }\n                offset += poly_modulus_degree;\n            }\n        }\n        true\n    }\n\n}\n\nimpl ValCheck for SecretKey","                for k in 0..poly_modulus_degree {\n                    if self.data_at(offset + k) > modulus {return false;}\n                }\n                offset += poly_modulus_degree;\n            }\n        }\n        true\n    }\n\n}\n\nimpl ValCheck for SecretKey"),
 ("C06","multiply_plain_lazy_result","src/util/polysmallmod.rs",None,None),
 # C07
 ("C07","norm_plain_half","src/encryptor.rs","    util::half_round_up_uint(modulus, &mut modulus_neg_threshold);","    util::right_shift_uint(modulus, 1, coeff_u64_count, &mut modulus_neg_threshold);"),
 ("C07","bfv_forgets_t","src/encryptor.rs","        if scheme == SchemeType::BFV {\n            polymod::multiply_scalar_inplace_p(\n                &mut noise_poly, plain_modulus.value(), coeff_count, coeff_modulus);\n        }","        if scheme == SchemeType::BFV && coeff_modulus_size > 1 {\n            polymod::multiply_scalar_inplace_p(\n                &mut noise_poly, plain_modulus.value(), coeff_count, coeff_modulus);\n        }"),
 ("C07","budget_minus_2","src/encryptor.rs","            - util::get_significant_bit_count_uint(&norm) as isize - 1;","            - util::get_significant_bit_count_uint(&norm) as isize - 2;"),
 # C08
 ("C08","barrett_gt","src/util/uintsmallmod.rs","    // One more subtraction is enough\n    if tmp3 >= modulus.value() {tmp3 - modulus.value()} else {tmp3}","    // One more subtraction is enough\n    if tmp3 > modulus.value() {tmp3 - modulus.value()} else {tmp3}"),
 ("C08","add_carry_le","src/util/basic.rs","    ((a < operand2) || (!a < (carry as u64))) as u8","    ((a <= operand2) || (!a < (carry as u64))) as u8"),
 ("C08","left_shift_neg","src/util/basic.rs","        let neg_bit_shift_amount = 64 - bit_shift_amount;\n        for i in (1..u64_count).rev() {\n            result[i] = (result[i] << bit_shift_amount) | (result[i-1] >> neg_bit_shift_amount);","        let neg_bit_shift_amount = 63 - bit_shift_amount;\n        for i in (1..u64_count).rev() {\n            result[i] = (result[i] << bit_shift_amount) | (result[i-1] >> neg_bit_shift_amount);"),
 ("C08","lazy_mul_reduced_twice","src/util/uintsmallmod.rs","    util::multiply_u64_high_word(x, y.quotient, &mut tmp1);\n    y.operand.wrapping_mul(x).wrapping_sub(tmp1.wrapping_mul(p))\n}","    util::multiply_u64_high_word(x, y.quotient, &mut tmp1);\n    y.operand.wrapping_mul(x).wrapping_sub(tmp1.wrapping_mul(p)).wrapping_add(p)\n}"),
 # C17
 ("C17","new_size_from_request_only","src/encryptor.rs","        let old_size = write_lock.len() / (coeff_count * coeff_modulus_size);\n        let new_size = old_size.max(max_power);\n        if old_size == new_size {\n            return;\n        }","        let old_size = write_lock.len() / (coeff_count * coeff_modulus_size);\n        let new_size = max_power;\n        if old_size == new_size {\n            return;\n        }"),
 ("C17","galois_check_then_use_unlocked","src/util/galois.rs","        if need_to_generate {\n            let mut tables = self.permutation_tables.write().unwrap();\n            (*tables)[index] = self.generate_table_ntt(galois_elt);\n        }","        if need_to_generate {\n            let mut tables = self.permutation_tables.write().unwrap();\n            if (*tables)[index].is_empty() { (*tables)[index] = vec![0; self.coeff_count]; drop(tables); let t = self.generate_table_ntt(galois_elt); let mut tables = self.permutation_tables.write().unwrap(); (*tables)[index] = t; }\n        }"),
]
out = "/verif/mutants"
os.makedirs(out, exist_ok=True)
n = 0
for prop, name, f, old, new in M:
    if old is None: continue
    src = open(os.path.join("/repo", f)).read()
    if src.count(old) != 1:
        print(f"SKIP {prop}_{name}: pattern occurs {src.count(old)} times"); continue
    with tempfile.NamedTemporaryFile("w", suffix=".rs", delete=False) as t: t.write(src.replace(old, new)); tn = t.name
    d = subprocess.run(["diff", "-u", "--label", "a/" + f, "--label", "b/" + f, os.path.join("/repo", f), tn], capture_output=True, text=True).stdout
    os.unlink(tn)
    open(os.path.join(out, f"{prop.lower()}_{name}.diff"), "w").write(d); n += 1
print("mutants written:", n)
