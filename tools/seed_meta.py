#!/usr/bin/env python3
"""Completes /verif/seeded/*/meta.json: 'needs_to_manifest' (from the author's notes.md), 'what_was_run', crash verdicts."""
import json, re, glob, os
here = os.path.dirname(os.path.dirname(os.path.abspath(__file__)))
for d in sorted(glob.glob(os.path.join(here, 'seeded', '*', ''))):
    mp = d + 'meta.json'; m = json.load(open(mp))
    notes = open(d + 'notes.md').read() if os.path.exists(d + 'notes.md') else ''
    sec = None
    for p in re.split(r'\n(?=#+ )', notes):
        h = p.split('\n', 1)[0].lower()
        if any(k in h for k in ['needed', 'takes', 'trigger', 'manifest', 'condition', 'when it']):
            sec = p.split('\n', 1)[1] if '\n' in p else ''; break
    if sec is None:
        mm = re.search(r'(?is)(what (?:is needed|it takes)[^\n]*\n.*?)(?:\n#|\n\*\*Demo|\Z)', notes)
        sec = mm.group(1) if mm else notes[:600]
    m['needs_to_manifest'] = re.sub(r'\s+', ' ', sec).strip()[:900]
    m['what_was_run'] = ["tools/verify_seed.sh: fresh scratch worktree of /repo; demonstration without the patch; `cargo test --offline --lib` with the patch; demonstration with the patch",
                         m['our_check']['command'] + " (scratch copy of /repo with the patch, harness built against it; /repo itself never modified)"]
    oc = m['our_check']
    if oc.get('exit') == 134:
        oc['note'] = "the checking process was aborted inside a library deserializer (allocation of ~10^15 bytes from a misaligned stream); ./check reports this exit status as VIOLATION <id>|process|killed_by_signal_6|crash with a replay of the crashing case (CRASH-CASE line)"
        oc['caught'] = True
    else:
        oc['caught'] = oc.get('exit') == 1
    json.dump(m, open(mp, 'w'), indent=1)
