#!/usr/bin/env python3
"""tools/add_finding.py <property> <signature> <known|fixed> <commit-subject-substring|-> <what failed>"""
import json, subprocess, sys, os
here = os.path.dirname(os.path.dirname(os.path.abspath(__file__)))
prop, sig, status, sub, what = sys.argv[1:6]
commit = None
if sub != "-":
    for l in subprocess.check_output(['git','-C','/repo','log','--format=%h %s']).decode().splitlines():
        if sub in l: commit = l.split()[0]; break
    assert commit, sub
p = os.path.join(here, 'known_findings.json')
d = json.load(open(p))
e = {"property": prop, "signature": sig, "status": status, "what_failed": what}
if commit: e["commit"] = commit
if status == "fixed": e["record"] = f"fixed: property={prop} {commit} {what}"
d["findings"] = [x for x in d["findings"] if not (x["property"] == prop and x["signature"] == sig)] + [e]
for x in d["findings"]:
    if x["status"] == "fixed" and "record" not in x: x["record"] = f"fixed: property={x['property']} {x.get('commit','')} {x['what_failed']}"
json.dump(d, open(p, 'w'), indent=1)
print("ok", len(d["findings"]))
