#!/usr/bin/env python3
"""Parses tools/run_mutants.sh logs (stdin or files) into the markdown table of DESIGN.md §9.6."""
import re, sys, collections
text = "".join(open(f).read() for f in sys.argv[1:]) if len(sys.argv) > 1 else sys.stdin.read()
rows = collections.OrderedDict()
for line in text.splitlines():
    m = re.search(r"MUTANT (\S+?)\.diff: repo tests (PASS|FAIL)", line)
    if m: rows.setdefault(m.group(1), {})["suite"] = "passes" if m.group(2) == "PASS" else "fails"
    m = re.search(r"MUTANT (\S+?)\.diff on (C\d+)/(\w+): exit=(\d+) signatures=(\d+)", line)
    if m: rows.setdefault(m.group(1), {}).update({"prop": m.group(2), "exit": int(m.group(4)), "sigs": int(m.group(5))})
print("| mutant | property | existing suite | quick check |")
print("|---|---|---|---|")
for name, r in sorted(rows.items()):
    if "exit" not in r: continue
    verdict = {1: "**caught** (%d signatures)" % r["sigs"], 0: "not caught"}.get(r["exit"], "exit %d" % r["exit"])
    if r["exit"] in (132, 134, 135, 136, 139): verdict = "**caught** as a crash (signal %d inside library code; `./check` prints VIOLATION ...|crash with the crashing case)" % (r["exit"] - 128)
    print("| %s | %s | %s | %s |" % (name, r["prop"], r.get("suite", "?"), verdict))
