#!/usr/bin/env bash
# tools/run_mutants.sh [pattern] — runs every /verif/mutants/<pattern>*.diff against the quick check of its property
# (property id = file name prefix), 4 lanes in parallel, results appended to /verif/mutants/RESULTS.txt
cd "$(dirname "$0")/.."
pat="${1:-}"
ls mutants/${pat}*.diff | sort > /tmp/mutlist.$$
lanes=${LANES:-4}
for lane in $(seq 0 $((lanes-1))); do
  ( i=0; while read -r f; do
      if [ $((i % lanes)) -eq $lane ]; then
        prop=$(basename "$f" | cut -d_ -f1 | tr a-z A-Z)
        MUT_TARGET=/tmp/mut-target-$lane MUT_TIMEOUT=600 ./tools/mutant_run.sh "$f" "$prop" quick ${WITH_TESTS:-} 2>&1 | sed "s/^/[$lane] /"
      fi; i=$((i+1)); done < /tmp/mutlist.$$ ) &
done
wait
rm -f /tmp/mutlist.$$
