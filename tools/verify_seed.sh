#!/usr/bin/env bash
# tools/verify_seed.sh <Cxx> [demo-relative-path]
# Independent confirmation of a seeded change delivered in /tmp/seed-<Cxx>-out: fresh scratch worktree of /repo,
# demo passes without the patch, repo tests pass with it, demo fails with it. Then runs our quick check against it
# (tools/mutant_run.sh) and files everything under /verif/seeded/<Cxx>/. Removes the scratch worktree.
set -u
id="$1"; pre="${SEED_PREFIX:-seed}"; suffix="${SEED_SUFFIX:-}"; out="/tmp/$pre-$id-out"; src="/tmp/$pre-$id"
demo_rel="${2:-}"
if [ -z "$demo_rel" ]; then for c in examples/seed_demo.rs tests/seed_demo.rs; do [ -f "$src/$c" ] && demo_rel="$c"; done; fi
[ -f "$out/patch.diff" ] || { echo "no patch"; exit 2; }
[ -n "$demo_rel" ] || { echo "no demo found"; exit 2; }
wt="/tmp/vseed-$id$suffix"; rm -rf "$wt"; git -C /repo worktree prune
git -C /repo worktree add --detach "$wt" HEAD -q || exit 2
trap 'git -C /repo worktree remove --force "$wt" 2>/dev/null; rm -rf "$wt"' EXIT
mkdir -p "$wt/$(dirname "$demo_rel")"; cp "$src/$demo_rel" "$wt/$demo_rel"
export CARGO_NET_OFFLINE=true CARGO_TARGET_DIR="$wt/target"
feat=""; grep -q "verif::" "$wt/$demo_rel" && feat="--features verif"
run_demo() { if [[ "$demo_rel" == examples/* ]]; then (cd "$wt" && timeout 900 cargo run --offline --release $feat --example "$(basename "$demo_rel" .rs)" >"$1" 2>&1); else (cd "$wt" && timeout 900 cargo test --offline --release $feat --test "$(basename "$demo_rel" .rs)" >"$1" 2>&1); fi; }
run_demo "$wt/demo_without.log"; without=$?
(cd "$wt" && git apply "$out/patch.diff") || { echo "patch does not apply"; exit 2; }
(cd "$wt" && cargo test --offline --lib >"$wt/tests.log" 2>&1); tests=$?
tests_line=$(grep -E "^test result" "$wt/tests.log" | head -1)
run_demo "$wt/demo_with.log"; with=$?
echo "SEED $id: demo without patch exit=$without ; repo tests with patch exit=$tests ($tests_line) ; demo with patch exit=$with"
dest="/verif/seeded/$id$suffix"; mkdir -p "$dest"
cp "$out/patch.diff" "$dest/patch.diff"; cp "$src/$demo_rel" "$dest/$(basename "$demo_rel")"; [ -f "$out/notes.md" ] && cp "$out/notes.md" "$dest/notes.md"
tail -5 "$wt/demo_with.log" > "$dest/demo_with_patch.tail.txt"; tail -3 "$wt/demo_without.log" > "$dest/demo_without_patch.tail.txt"
git -C /repo worktree remove --force "$wt" 2>/dev/null; rm -rf "$wt"; trap - EXIT
check_out=$(MUT_TARGET=/tmp/mut-target-seed ${SEED_ENV:-} /verif/tools/mutant_run.sh "$dest/patch.diff" "${CHECK_PROP:-$id}" "${TIER:-quick}" 2>&1)
echo "$check_out"
python3 - "$id" "$without" "$tests" "$with" "$demo_rel" "$tests_line" "$suffix" <<PY
import json, sys, re
id_, without, tests, with_, demo, tl, suffix = sys.argv[1:8]
co = """$check_out"""
m = re.search(r"exit=(\d+) signatures=(\d+)", co)
meta = {"property": id_, "demo": demo.split("/")[-1], "confirmed": {"demo_passes_without_patch": without == "0", "repo_tests_pass_with_patch": tests == "0", "repo_tests_line": tl, "demo_fails_with_patch": with_ != "0"},
        "our_check": {"command": "tools/mutant_run.sh seeded/%s%s/patch.diff %s quick" % (id_, suffix, id_), "exit": int(m.group(1)) if m else None, "distinct_signatures": int(m.group(2)) if m else None,
                      "signatures": sorted(set(re.findall(r"signature: (.*)", co)))[:8]},
        "needs_to_manifest": "see notes.md"}
json.dump(meta, open("/verif/seeded/%s%s/meta.json" % (id_, suffix), "w"), indent=1)
PY
