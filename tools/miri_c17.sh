#!/usr/bin/env bash
# Runs the tiny two-thread shared-decryptor scenario (hv C17MIRI) under Miri with several scheduler seeds.
# Miri is used as a data-race / out-of-bounds / uninitialised-read detector: alignment and stacked-borrows checks
# are switched off because the library trips them in code no listed property speaks about (see DESIGN.md).
set -u
cd "$(dirname "$0")/.."
export CARGO_NET_OFFLINE=true
export CARGO_TARGET_DIR="$(pwd)/target-miri"
export MIRIFLAGS="-Zmiri-disable-isolation -Zmiri-disable-alignment-check -Zmiri-disable-stacked-borrows -Zmiri-many-seeds=0..${MIRI_SEEDS:-4}"
timeout "${MIRI_TIMEOUT:-1500}" cargo +nightly miri run --offline --manifest-path harness/Cargo.toml -- C17MIRI 2>&1 | tail -60
