#!/usr/bin/env python3
"""tools/update_baseline.py [log files...] — records the number of evaluations per (property, tier) at the default work factor in
/verif/baseline_coverage.json, from SUMMARY lines of the given logs (or from /verif/evidence/*.json when no log is given).
A run that evaluates less than 75% of the baseline is reported INCONCLUSIVE (coverage anomaly), see harness/src/rt.rs::finish.
The smallest value seen per (property, tier) is kept, so feeding runs at several seeds makes the baseline conservative."""
import json, glob, os, re, sys
here = os.path.dirname(os.path.dirname(os.path.abspath(__file__)))
p = os.path.join(here, "baseline_coverage.json")
base = json.load(open(p)) if os.path.exists(p) and "--reset" not in sys.argv else {}
obs = []
logs = [a for a in sys.argv[1:] if not a.startswith("--")]
if logs:
    for f in logs:
        for l in open(f, errors="replace"):
            m = re.search(r"SUMMARY property=(C\d+) tier=(\w+) seed=\d+ evaluations=(\d+) .*violations=0 ", l)
            if m: obs.append((m.group(1), m.group(2), int(m.group(3))))
else:
    for f in glob.glob(os.path.join(here, "evidence", "C*.json")):
        e = json.load(open(f))
        if e.get("violations", 0) == 0: obs.append((e["property_id"], e["tier"], e["coverage"]["evaluations"]))
fresh = {}
for pid, tier, n in obs:
    k = (pid, tier); fresh[k] = min(fresh.get(k, n), n)
for (pid, tier), n in fresh.items(): base.setdefault(pid, {})[tier] = n
base["_comment"] = "evaluations per (property, tier) at the default work factor on the unchanged tree; written by tools/update_baseline.py, read by the harness (coverage anomaly = inconclusive)"
json.dump(base, open(p, "w"), indent=1, sort_keys=True)
print("baseline entries:", sum(len(v) for k, v in base.items() if k != "_comment"))
