#!/usr/bin/env python3
"""Builds the markdown table of DESIGN.md §9.7 from /verif/seeded/*/meta.json and notes.md."""
import json, glob, os, re
here = os.path.dirname(os.path.dirname(os.path.abspath(__file__)))
def short(s, n):
    s = re.sub(r"\s+", " ", s).strip()
    return s if len(s) <= n else s[:n - 1].rsplit(" ", 1)[0] + " …"
print("| seeded change | where / what (from its author's notes) | needs, to manifest | 78-test suite | quick check of that property |")
print("|---|---|---|---|---|")
for d in sorted(glob.glob(os.path.join(here, "seeded", "*", ""))):
    m = json.load(open(d + "meta.json")); name = os.path.basename(d[:-1])
    notes = open(d + "notes.md").read() if os.path.exists(d + "notes.md") else ""
    files = sorted(set(re.findall(r"^\+\+\+ b/(\S+)", open(d + "patch.diff").read(), re.M)))
    change = ""
    for p in re.split(r"\n(?=#+ )", notes):
        h = p.split("\n", 1)[0].lower()
        if "change" in h and "\n" in p: change = p.split("\n", 1)[1]; break
    if not change: change = notes
    change = "\n".join(l for l in change.splitlines() if not l.startswith("#") and not l.startswith("```") and not l.startswith("See ") )
    change = re.sub(r"^\W*`?src/[\w/\.]+`?\s*[,:(]?\s*", "", change.strip())
    oc = m["our_check"]
    if oc.get("exit") == 1: verdict = "**caught**, %d signatures, e.g. `%s`" % (oc["distinct_signatures"], (oc.get("signatures") or ["?"])[0])
    elif oc.get("caught"): verdict = "**caught** as a crash: the process aborts inside the library (exit %d); `./check` prints VIOLATION with the crashing case" % oc["exit"]
    else: verdict = "NOT caught (exit %s)" % oc.get("exit")
    c = m["confirmed"]
    ok = "passes" if c["repo_tests_pass_with_patch"] else "FAILS"
    print("| %s | `%s`: %s | %s | %s | %s |" % (name, ", ".join(files), short(change, 170).replace("|", "/"), short(m["needs_to_manifest"], 170).replace("|", "/"), ok, verdict.replace("|", "\\|")))
