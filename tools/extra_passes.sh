#!/usr/bin/env bash
# tools/extra_passes.sh <Cxx>   (thorough tier only; called by ./check before the main run)
# (1) plain-release pass: the quick workload again without overflow checks / debug assertions (what downstream users
#     build) — verdicts can differ between the two profiles;
# (2) AddressSanitizer pass: quick workload at reduced scale in an ASan build, for every property except C17 (which has
#     its own ThreadSanitizer and Miri passes). The library's unsafe blocks sit in encryptor/rlwe/text (seed storage and
#     expansion), evaluator (BFV multiply, key switching), key.rs, app/lwe.rs (packing), context.rs (chain links),
#     random_generator.rs and hash.rs; every property's workload drives some of them. Validated with
#     mutants/c01_seed_guard_off_by_one.diff (8-byte heap overflow when storing a seed): ASan reports it.
# Prints VIOLATION lines of the sub-runs (re-labelled) and a one-line JSON summary on the last line (for the evidence).
set -u
id="${1^^}"; VD="$(cd "$(dirname "$0")/.." && pwd)"
export CARGO_NET_OFFLINE=true
viol=0; summary=""
# ---- (1) plain release profile
if CARGO_TARGET_DIR="$VD/target" cargo build --profile relplain --offline --manifest-path "$VD/harness/Cargo.toml" >"$VD/target/.build-plain.log" 2>&1; then
  mkdir -p "$VD/target/plain-out"; cp "$VD/known_findings.json" "$VD/target/plain-out/" 2>/dev/null
  extra_env=""; [ "$id" = "C17" ] && extra_env="HV_TSAN_BIN=/nonexistent"
  out=$(env $extra_env VERIF_DIR="$VD/target/plain-out" VERIF_SCALE="${PLAIN_SCALE:-0.5}" "$VD/target/relplain/hv" "$id" --tier quick 2>&1); code=$?
  evals=$(echo "$out" | grep -o "evaluations=[0-9]*" | head -1)
  if [ $code -eq 1 ]; then viol=1; echo "$out" | grep -A2 "^VIOLATION" | sed 's/^VIOLATION property=\([A-Z0-9]*\) /VIOLATION property=\1 /; s/^  signature: /  signature: [plain-release] /'; fi
  summary="\"plain_release\":{\"exit\":$code,\"${evals/=/\":}}"
else summary="\"plain_release\":{\"exit\":\"build_failed\"}"; fi
# ---- (2) AddressSanitizer
case "$id" in C17) ;; *)
  if RUSTFLAGS="-Zsanitizer=address -Cforce-frame-pointers=yes" CARGO_TARGET_DIR="$VD/target-asan" cargo +nightly build --target x86_64-unknown-linux-gnu --release --offline --manifest-path "$VD/harness/Cargo.toml" >"$VD/target/.build-asan.log" 2>&1; then
    mkdir -p "$VD/target-asan/out" "$VD/target-asan/logs"; rm -f "$VD/target-asan/logs/"*; cp "$VD/known_findings.json" "$VD/target-asan/out/" 2>/dev/null
    out=$(ASAN_OPTIONS="detect_leaks=0 halt_on_error=1 abort_on_error=0 log_path=$VD/target-asan/logs/asan" VERIF_DIR="$VD/target-asan/out" VERIF_SCALE="${ASAN_SCALE:-0.15}" "$VD/target-asan/x86_64-unknown-linux-gnu/release/hv" "$id" --tier quick 2>&1); code=$?
    reports=$(cat "$VD/target-asan/logs/"* 2>/dev/null | grep -c "ERROR: AddressSanitizer")
    if [ "$reports" -gt 0 ]; then
      viol=1; mkdir -p "$VD/replays/$id"; rp="$VD/replays/$id/asan_report.txt"; cat "$VD/target-asan/logs/"* | head -120 > "$rp"
      echo "VIOLATION property=$id replay=$rp"; echo "  signature: $id|asan|$(grep -m1 'ERROR: AddressSanitizer' "$rp" | sed 's/.*AddressSanitizer: //; s/ on address.*//')|memory_error"
    elif [ $code -eq 1 ]; then viol=1; echo "$out" | grep -A2 "^VIOLATION" | sed 's/^  signature: /  signature: [asan-build] /'; fi
    evals=$(echo "$out" | grep -o "evaluations=[0-9]*" | head -1)
    summary="$summary,\"asan\":{\"exit\":$code,\"reports\":$reports,\"${evals/=/\":}}"
  else summary="$summary,\"asan\":{\"exit\":\"build_failed\"}"; fi;;
esac
echo "EXTRA_SUMMARY {$summary}"
exit $viol
