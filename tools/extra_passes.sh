#!/usr/bin/env bash
# tools/extra_passes.sh <Cxx>   (thorough tier only; called by ./check before the main run)
# (1) plain-release pass: the quick workload again without overflow checks / debug assertions (what downstream users
#     build) — verdicts can differ between the two profiles;
# (2) AddressSanitizer pass: quick workload at reduced scale in an ASan build, for every property except C17 (which has
#     its own ThreadSanitizer and Miri passes). The library's unsafe blocks sit in encryptor/rlwe/text (seed storage and
#     expansion), evaluator (BFV multiply, key switching), key.rs, app/lwe.rs (packing), context.rs (chain links),
#     random_generator.rs and hash.rs; every property's workload drives some of them. Validated with
#     mutants/c01_seed_guard_off_by_one.diff (8-byte heap overflow when storing a seed): ASan reports it.
# Prints VIOLATION lines of the sub-runs (re-labelled) and a one-line JSON summary on the last line (for the evidence).
set -u
id="${1^^}"; VD="$(cd "$(dirname "$0")/.." && pwd)"
export CARGO_NET_OFFLINE=true
viol=0; summary=""
# ---- (1) plain release profile
if CARGO_TARGET_DIR="$VD/target" cargo build --profile relplain --offline --manifest-path "$VD/harness/Cargo.toml" >"$VD/target/.build-plain.log" 2>&1; then
  mkdir -p "$VD/target/plain-out"; cp "$VD/known_findings.json" "$VD/target/plain-out/" 2>/dev/null
  extra_env=""; [ "$id" = "C17" ] && extra_env="HV_TSAN_BIN=/nonexistent"
  out=$(env $extra_env HV_NO_FLOOR=1 VERIF_DIR="$VD/target/plain-out" VERIF_SCALE="${PLAIN_SCALE:-0.5}" "$VD/target/relplain/hv" "$id" --tier quick 2>&1); code=$?
  evals=$(echo "$out" | grep -o "evaluations=[0-9]*" | head -1)
  if [ $code -eq 1 ]; then viol=1; echo "$out" | grep -A2 "^VIOLATION" | sed 's/^VIOLATION property=\([A-Z0-9]*\) /VIOLATION property=\1 /; s/^  signature: /  signature: [plain-release] /'; fi
  summary="\"plain_release\":{\"exit\":$code,\"${evals/=/\":}}"
else summary="\"plain_release\":{\"exit\":\"build_failed\"}"; fi
# ---- (2) AddressSanitizer
case "$id" in C17) ;; *)
  if RUSTFLAGS="-Zsanitizer=address -Cforce-frame-pointers=yes" CARGO_TARGET_DIR="$VD/target-asan" cargo +nightly build --target x86_64-unknown-linux-gnu --release --offline --manifest-path "$VD/harness/Cargo.toml" >"$VD/target/.build-asan.log" 2>&1; then
    mkdir -p "$VD/target-asan/out" "$VD/target-asan/logs"; rm -f "$VD/target-asan/logs/"*; cp "$VD/known_findings.json" "$VD/target-asan/out/" 2>/dev/null
    out=$(HV_NO_FLOOR=1 ASAN_OPTIONS="detect_leaks=0 halt_on_error=1 abort_on_error=0 log_path=$VD/target-asan/logs/asan" VERIF_DIR="$VD/target-asan/out" VERIF_SCALE="${ASAN_SCALE:-0.15}" "$VD/target-asan/x86_64-unknown-linux-gnu/release/hv" "$id" --tier quick 2>&1); code=$?
    reports=$(cat "$VD/target-asan/logs/"* 2>/dev/null | grep -c "ERROR: AddressSanitizer")
    if [ "$reports" -gt 0 ]; then
      viol=1; mkdir -p "$VD/replays/$id"; rp="$VD/replays/$id/asan_report.txt"; cat "$VD/target-asan/logs/"* | head -120 > "$rp"
      echo "VIOLATION property=$id replay=$rp"; echo "  signature: $id|asan|$(grep -m1 'ERROR: AddressSanitizer' "$rp" | sed 's/.*AddressSanitizer: //; s/ on address.*//')|memory_error"
    elif [ $code -eq 1 ]; then viol=1; echo "$out" | grep -A2 "^VIOLATION" | sed 's/^  signature: /  signature: [asan-build] /'; fi
    evals=$(echo "$out" | grep -o "evaluations=[0-9]*" | head -1)
    summary="$summary,\"asan\":{\"exit\":$code,\"reports\":$reports,\"${evals/=/\":}}"
  else summary="$summary,\"asan\":{\"exit\":\"build_failed\"}"; fi;;
esac
# ---- (3) Miri as undefined-behaviour monitor (out-of-bounds, use-after-free, uninitialised reads, invalid values, data
#      races) on a handful of small-degree cases of this property's own workload, several seeds in parallel. Functional
#      verdicts of these sub-runs are ignored on purpose (Miri perturbs floating-point results by design, which breaks
#      tolerance-based oracles); only Miri's own reports count. Alignment and stacked-borrows checks are off (DESIGN 2.3).
case "$id" in C17) ;; *)
  if [ "${VERIF_NO_MIRI:-0}" != "1" ]; then
    # parameters go in with -Zmiri-env-set: cargo-miri replays the environment captured when the crate was built, so plain
    # shell variables are not reliable inside the interpreted program
    mflags="-Zmiri-disable-isolation -Zmiri-disable-alignment-check -Zmiri-disable-stacked-borrows -Zmiri-env-set=HV_NO_FLOOR=1 -Zmiri-env-set=VERIF_JOBS=1 -Zmiri-env-set=VERIF_SCALE=1 -Zmiri-env-set=HV_MIRI_BUDGET_S=${MIRI_BUDGET_S:-240} -Zmiri-env-set=HV_MIRI_CASES=${MIRI_CASES:-2}"
    mdir="$VD/target-miri/out-$id"; rm -rf "$mdir"; mkdir -p "$mdir"
    # build once (the first process builds, the others would only wait on the lock)
    MIRIFLAGS="$mflags" CARGO_TARGET_DIR="$VD/target-miri" timeout 900 cargo +nightly miri run --offline --manifest-path "$VD/harness/Cargo.toml" -- selftest-none >"$mdir/build.log" 2>&1
    procs="${MIRI_PROCS:-6}"; base="${VERIF_SEED:-1}"
    for k in $(seq 1 "$procs"); do
      ( mkdir -p "$mdir/$k"; cp "$VD/known_findings.json" "$mdir/$k/" 2>/dev/null
        MIRIFLAGS="$mflags -Zmiri-env-set=VERIF_DIR=$mdir/$k -Zmiri-env-set=VERIF_SEED=$((base * 1000 + k))" CARGO_TARGET_DIR="$VD/target-miri" \
          timeout "${MIRI_TIMEOUT:-900}" cargo +nightly miri run --offline --manifest-path "$VD/harness/Cargo.toml" -- "$id" --tier quick >"$mdir/$k.log" 2>&1
        echo $? >"$mdir/$k.code" ) &
    done
    wait
    ub=$(cat "$mdir"/*.log | grep -c -E "error: Undefined Behavior|error: .*[Dd]ata race")
    cases=$(cat "$mdir"/*.log | grep "^MIRI-GROUP" | sed 's/.*cases=\[//; s/\]//' | tr ',' '\n' | grep -c '[0-9]')
    groups=$(cat "$mdir"/*.log | grep "^MIRI-GROUP" | awk '{print $2}' | sort -u | wc -l)
    tmo=$(cat "$mdir"/*.code | grep -c '^124$'); unsup=$(cat "$mdir"/*.log | grep -c "error: unsupported operation")
    if [ "$ub" -gt 0 ]; then
      viol=1; mkdir -p "$VD/replays/$id"; rp="$VD/replays/$id/miri_report.txt"
      for f in "$mdir"/*.log; do if grep -q -E "error: Undefined Behavior|error: .*[Dd]ata race" "$f"; then { grep "^MIRI-GROUP" "$f" | tail -1; grep -E -A40 "error: Undefined Behavior|error: .*[Dd]ata race" "$f" | head -80; } > "$rp"; break; fi; done
      echo "VIOLATION property=$id replay=$rp"; echo "  signature: $id|miri|$(grep -m1 -E 'error: ' "$rp" | sed 's/error: //' | cut -c1-90)|undefined_behaviour"
    fi
    summary="$summary,\"miri\":{\"processes\":$procs,\"ub_reports\":$ub,\"cases_started\":$cases,\"groups\":$groups,\"timeouts\":$tmo,\"unsupported\":$unsup}"
  fi;;
esac
echo "EXTRA_SUMMARY {$summary}"
exit $viol
