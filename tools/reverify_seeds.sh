#!/usr/bin/env bash
# tools/reverify_seeds.sh [lanes] — regression over every filed seeded change: runs the quick check of its property against
# a scratch copy of /repo carrying the patch (tools/mutant_run.sh) and refreshes our_check in seeded/<id>/meta.json.
# A seed that the check missed when it arrived keeps that fact in our_check.first_run.
cd "$(dirname "$0")/.."
lanes="${1:-3}"
ls -d seeded/*/ | sort | grep -E "${2:-.}" > /tmp/seedlist.$$   # optional 2nd argument: regex selecting seed directories
for lane in $(seq 0 $((lanes-1))); do
  ( i=0; while read -r d; do
      if [ $((i % lanes)) -eq $lane ]; then
        name=$(basename "$d"); prop=$(echo "$name" | cut -c1-3)
        out=$(MUT_TARGET=/tmp/mut-target-rv$lane ./tools/mutant_run.sh "$d/patch.diff" "$prop" quick 2>&1)
        echo "$out" | grep -E "^MUTANT|^  \(process|^CRASH" | sed "s/^/[$name] /"
        python3 - "$d" <<PY
import json, re, sys
d = sys.argv[1]; co = """$out"""
m = re.search(r"exit=(\d+) signatures=(\d+)", co)
meta = json.load(open(d + "meta.json")); oc = meta["our_check"]
if m:
    ex, ns = int(m.group(1)), int(m.group(2))
    sigs = sorted(set(re.findall(r"signature: (.*)", co)))[:8]
    caught = ex == 1 or ex in (132, 134, 135, 136, 139)
    if not oc.get("caught") and caught and "first_run" not in oc:
        oc["first_run"] = {"exit": oc.get("exit"), "note": "MISSED by the check as it stood when this change arrived"}
    oc.update({"exit": ex, "distinct_signatures": ns, "signatures": sigs, "caught": caught})
    if ex in (132, 134, 135, 136, 139): oc["note"] = "the checking process dies by signal %d inside library code; ./check reports VIOLATION <id>|process|killed_by_signal_%d|crash with a replay of the crashing case" % (ex - 128, ex - 128)
    json.dump(meta, open(d + "meta.json", "w"), indent=1)
PY
      fi; i=$((i+1)); done < /tmp/seedlist.$$ ) &
done
wait; rm -f /tmp/seedlist.$$
echo REVERIFY DONE
