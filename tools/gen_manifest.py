#!/usr/bin/env python3
"""Generates /verif/MANIFEST.json from the table below (kept in one place so it stays valid)."""
import json, subprocess, os
here = os.path.dirname(os.path.dirname(os.path.abspath(__file__)))
props = [json.loads(l) for l in open(os.path.join(here, "properties.jsonl"))]
# id -> (level category, technique, level text, level note, design ref)
EXPL = "exploration"
def e(tech, text, note, ref, cat=EXPL): return (cat, tech, text, note, ref)
BUILT = {
 "C01": e("runtime monitor: real encrypt/decrypt on generated parameter corners, decided by an independent oracle decryptor (schoolbook phase with the recovered secret, big-integer rounding) and exact noise-bound checks",
          "Random parameter sets from corner families x plaintext corner classes x 7 encryption entry points x every level are executed; decryption by the library and by the oracle decryptor must equal the plaintext (CKKS: within the deterministic worst-case bound, exact fresh noise against 21(2N+1)). Held on the executions observed.",
          "Trusted: harness reference arithmetic (BigU cross-checked with Python at setup; reference inverse NTT with the library's published root, itself checked by C09). Correctness asserted only inside the analytic noise precondition.", "DESIGN.md §3 C01"),
 "C02": e("runtime monitor: typed random operation programs through the real Evaluator with a shadow plaintext ring element per ciphertext; oracle decryptor + library decryptor vs shadow; exhaustive operand-size pairs",
          "Operation programs (all BFV/BGV operations, random API form per step, all ordered size pairs up to 16, every level, both representations, BGV unequal correction factors) are executed; after every step the decrypted polynomial must equal the program evaluated in Z_t[X]/(X^N+1) whenever the worst-case noise is below threshold.",
          "Trusted: reference polynomial arithmetic, noise growth rules in harness/src/prog.rs (sound worst-case bounds; equality asserted only inside them).", "DESIGN.md §3 C02"),
 "C03": e("runtime monitor: random CKKS programs with complex shadow slots, tracked worst-case error bound and bit-exact expected scale; refusal scenarios in all API forms",
          "CKKS programs incl. rescaling are executed; the recorded scale must be bit-identical to the implied product/quotient, decoded slots (library and oracle decryptor + reference embedding) within the tracked worst-case error, and level/scale mismatches or out-of-range scales must be refused in every API form.",
          "Trusted: reference embedding (naive O(N^2) complex sums), tracked error rules in props/c03.rs; double-precision allowance of the library's documented decode path.", "DESIGN.md §3 C03"),
 "C05": e("runtime monitor with watchdog (bounded progress): every (source,target) level pair x size x API form of the mod-switch/rescale family executed under a deadline; oracle decryptor for message preservation",
          "All level pairs of chains of length 1..6, ciphertext sizes 2..4, three schemes, every API form: each call must return within the deadline, land on the target level, equal stepwise switching bit for bit, keep the message (exact in BFV/BGV incl. correction factor; within rounding bound in CKKS with exact scale), and upward / past-last / non-CKKS rescale requests must be refused.",
          "Termination is decided as bounded progress (10 s deadline at N<=16); message checks inside the worst-case noise precondition.", "DESIGN.md §3 C05"),
 "C06": e("runtime monitors on every program step (three API forms bit-compared, operand snapshots, independent validity predicate) + single-field corruption workload where every public operation must refuse",
          "Every step of BFV/BGV/CKKS programs runs in all three API forms (bit-identical results, unchanged operands, valid results); 14 single-field corruptions x every public operation taking the operand, level/representation mismatches, invalid plaintexts and seeded keys must be refused (panic).",
          "Any panic counts as refusal; documented no-op calls are excluded.", "DESIGN.md §3 C06"),
 "C07": e("runtime monitor: library noise budget vs exact big-integer evaluation of the definition by the oracle decryptor on every pool element of operation programs driven down to zero budget",
          "For every ciphertext reached (fresh, program results of sizes 2..16 at every level, budgets from full to 0, 1..6-word moduli) the reported budget must equal the exact one; fresh budgets meet the worst-case guarantee; negation keeps the budget; k-fold sums (k<=64) lose at most ceil(log2 k)+1 bits; exact decryption whenever the exact noise is inside the threshold.",
          "Budget definition as implemented/documented; oracle decryptor for N<=1024.", "DESIGN.md §3 C07"),
 "C08": e("reference-model monitor (u128 / big-integer oracle) over exhaustive small moduli + boundary/random workloads",
         "Every public word-level and multi-word primitive is executed on all moduli 2..127 with all operand pairs, on boundary moduli/operands of every bit size and on random multi-word operands of 1..8 words; each return value is compared with an independent u128/big-integer evaluation. Held on the executions observed; no claim beyond them.",
         "Trusted: rustc u128 arithmetic, the harness BigU (cross-checked against Python integers at setup). Domains as documented in the doc comments.", "DESIGN.md §3 C08"),
 "C10": e("reference-model monitor: RNSBase/RNSTool routines executed on integer-generated inputs and compared with their exact integer specifications (big integers), exhaustive for small bases",
          "CRT compose/decompose exhaustively for all bases with product <= 2^16 and sampled for 1..8 moduli of 2..61 bits; every RNSTool routine (fast base conversion, Montgomery reduction, fast floor, Shenoy-Kumaresan, their BFV composition, divide-and-round in both forms, BGV variant, scale-and-round, mod-t decryption) against its integer specification with its documented error term.",
          "Specifications derived from the BEHZ construction; approximate routines are checked with their error terms, never for exactness.", "DESIGN.md §3 C10"),
 "C11": e("reference-model monitor: batch encoder outputs vs naive evaluation at psi^(+-3^i); exhaustive unit vectors and every rotation step",
          "For all batching-compatible (N,t) explored: decode(encode(v))=v, slots equal naive evaluations (all unit vectors, all monomials), sums/products decode slot-wise, every rotation step and the column swap permute the decoded matrix as documented, polynomial encoding reduces mod t.",
          "Trusted: reference modular arithmetic; psi read from the context's plain NTT table and checked to be a primitive 2N-th root.", "DESIGN.md §3 C11"),
 "C13": e("runtime monitor over an enumerated configuration universe: every constructible parameter object is built through the public API and checked against an independent validity predicate, big-integer constants and a reference SHA-256 identifier",
          "Exhaustive small universe (thorough) / stratified subsample (quick) plus random large configurations and all generator calls: HeContext::new never panics, accepted => every level satisfies the preconditions, rejected => specific and true error, chain well-formed, constants equal their definitions, ids equal the reference hash, independent builds agree, no id collisions, generated moduli are distinct primes of the requested size = 1 mod 2N.",
          "Security table transcribed independently; reference SHA-256 stands in for an independent party.", "DESIGN.md §3 C13"),
}

BUILT.update({
 "C04": e("runtime monitor: every odd Galois element and every rotation step executed through the real evaluator with exact-step keys and with NAF-composed default keys; reference automorphism / documented slot permutation as oracle (oracle decryptor + C11-checked decoder)",
          "For N=4..32 all odd g<2N and all steps -(N/2-1)..N/2-1, at every level, three schemes, both key sets, seeded and unseeded keys, random API form: decrypted polynomial == plaintext with X->X^g, decoded slots == documented rotation / swap / conjugation; key switching s'->s preserves the plaintext. N up to 4096 sampled.",
          "Key-switch noise precondition checked per level; CKKS within a worst-case tolerance.", "DESIGN.md §3 C04"),
 "C09": e("reference-model monitor: the library's NTT entry points vs the O(N^2) definition of the transform; exhaustive over unit vectors; tables rebuilt in a second thread and a second process",
          "For degrees 2..2048 (thorough 8192) and NTT-friendly moduli of every bit size: forward == evaluations at psi^(2 bitrev(i)+1), psi minimal primitive root and identical across independent constructions, inverse round trips, lazy ranges and congruence, dyadic products == negacyclic convolution, negacyclic_shift for every shift.",
          "Inverse-lazy input range [0,2q) is inferred from the code (undocumented).", "DESIGN.md §3 C09"),
 "C16": e("runtime monitor: sequential byte-stream model of the seeded generator (BLAKE3 blocks) checked online over random read sequences; uniqueness monitor over histories of encryptions/key generations; exact-law tests of the samplers on deterministic seeds",
          "Generator reads (bytes exact, words position-consistent) under random chunkings straddling refills, no block/window repeats up to 8 MiB (256 MiB thorough), freshness of masks/seeds over histories of 10^3..10^5 operations with and without the entropy hook, identical masks for identical explicit generator states, well-formed samples and goodness of fit at p<1e-12.",
          "BLAKE3 itself is trusted; little-endian host.", "DESIGN.md §3 C16"),
 "C17": e("schedule exploration on feature-guarded yield points (all 2-thread interleavings; bounded DFS + random for 3-4 threads) + real-parallel stress with injected delays + ThreadSanitizer build of the stress workload (+ Miri scenario in thorough); sequential-result equality, cache monotonicity, deadlock watchdog",
          "Shared Decryptor / KeyGenerator / evaluator scenarios: every concurrent result equals the sequential bytes, caches only grow and end at the maximum requested, no panic, no deadlock (bounded progress), zero ThreadSanitizer reports. Held on the schedules and runs observed.",
          "Yield points only where no lock is held; interleavings inside lock phases are covered by the race detectors, not enumerated.", "DESIGN.md §3 C17"),
 "C18": e("history exploration: the harness is the network and enumerates every delivery order per receiver (n<=4), re-running the protocols with identical seeds; byte-equality across parties and histories, key relations against the parties' actual secrets, refusal on missing messages",
          "All multiparty protocols for 2..4 (thorough 6) parties, BFV/BGV/CKKS where accepted: outputs identical across parties and delivery orders, collective keys correspond to the summed secret within the noise bound, decryption / key switching / public-key switching preserve the plaintext, shares sum to the plaintext and convert back, missing messages make finish panic.",
          "shares_to_cipher: correctness is demanded of the designated aggregator (party 0), as in the library's own usage.", "DESIGN.md §3 C18"),
})

BUILT.update({
 "C12": e("reference-model monitor: plaintext residues inverse-transformed with the reference NTT, CRT-lifted to one big-integer vector and compared with the rounded scaled reference embedding; refusal thresholds with safety bands",
          "All five encoding entry points (both forms), chains of 1..19 primes, every level, scaled magnitudes below 64 / 64..128 / above 128 bits: one consistent integer coefficient vector in every RNS component, equal to the rounded scaled preimage within 1/2 + a derived double-precision bound; decode returns the input; out-of-range scales / magnitudes refused.",
          "Double-precision bound derived from the FFT stage count (stated in evidence); 2^-20 bands around refusal thresholds are not asserted.", "DESIGN.md §3 C12"),
 "C14": e("runtime monitor over a zoo of ~170 objects per context: counting writer / cursor position / field-wise comparison in the same and in a context rebuilt from the deserialized parameters; seeded-vs-expanded equivalence in later operations",
          "Every serializable type and format on parameter sets whose primes sit on every byte-width boundary: restored == original field by field, announced size == written == consumed (with trailing garbage and concatenated streams), seeded objects restore to their expanded form, selected-terms format restores exactly the selected coefficients, seeded and expanded objects interchangeable in later operations.",
          "Later-operation semantic checks only inside an analytic noise precondition.", "DESIGN.md §3 C14"),
 "C15": e("fault enumeration: ShortWriter / FailingWriter / TruncatedReader / ShortReader wrapped around every (de)serializer, every failure and truncation offset of every encoding <= 4 KiB",
          "For 29 types/formats: a writer accepting 1..8 bytes per call or failing at any offset yields Err or the complete encoding; every strict prefix of an encoding yields Err on deserialization; short reads still succeed; no panics.",
          "Offsets fully enumerated for encodings <= 4 KiB, field-boundary neighbourhoods + stride above; objects sampled.", "DESIGN.md §3 C15", "fault_enumeration"),
 "C19": e("runtime monitor: exhaustive (index, pack count, trace parameter) sweeps at small N through the real LWE utilities, decided by the library decryptor and the oracle decryptor on index-revealing plaintexts",
          "N=4..32 (thorough 64) exhaustive over coefficient index, pack count and trace parameter, three schemes, both input representations, two levels: extraction+assembly yields m_i in the constant coefficient, the field trace keeps exactly the multiples of N/2^l scaled by N/2^l, packing k extractions yields the values at stride N/2^ceil(log2 k); larger N sampled; every intermediate ciphertext valid.",
          "Key-switch noise precondition analytic; CKKS asserted when the tolerance is <= 1/(4N).", "DESIGN.md §3 C19"),
})

BUILT.update({
 "C20": e("runtime monitor: every small shape through the real matmul / conv2d / rns_plain helpers (encode, encrypt, compute, transport by selected-terms or full serialization, decrypt) against u128 / f64 / big-integer reference products",
          "Cheetah MatmulHelper: all (m,r,n) in [1,10]^3 at N=8,16,32 plus boundary shapes x objectives x packing x direction x BFV/CKKS; BOLT variants: all shapes in [1,8]^3 at N=16,32; Conv2dHelper: sampled shapes so that height/width/channel/batch splits occur; rns_plain programs against big integers modulo the product of the plain moduli; output re-encoding inverse of decoding; bias addition exact.",
          "Two 60-bit data primes (+ special prime) and bounded operands so the worst-case noise is within budget; CKKS tolerance derived in the evidence assumptions.", "DESIGN.md §3 C20"),
})
hook_commits = subprocess.check_output(["git", "-C", "/repo", "log", "--format=%H %s"]).decode().splitlines()
hooks = [l.split()[0] for l in hook_commits if l.split(" ", 1)[1].startswith("verif hooks")]
checks, na = [], []
for p in props:
    i = p["id"]
    if i in BUILT:
        cat, tech, text, note, ref = BUILT[i]
        checks.append({
            "property_id": i,
            "quick_cmd": f"./check {i} quick",
            "thorough_cmd": f"./check {i} thorough",
            "evidence_file": f"/verif/evidence/{i}.json",
            "replay_cmd_template": f"./check {i} --replay {{path}}",
            "engine": "hv",
            "level_claimed": {"category": cat, "text": text, "design_ref": ref},
            "level_note": note,
            "technique": tech,
        })
    else:
        na.append({"property_id": i, "reason": "monitor not built yet in this round (work in progress; see DESIGN.md for the planned check)"})
m = {
 "version": 1,
 "setup_cmd": "./setup.sh",
 "hooks": {
   "guard": "cargo feature `verif` of the heathcliff crate (off by default)",
   "enable": "the harness crate /verif/harness depends on heathcliff with features=[\"verif\"]; ./check builds it with cargo build --release --offline",
   "baseline_off_cmd": "cd /repo && cargo test --workspace --no-fail-fast --offline",
   "source_commits": hooks,
   "add_only": True,
 },
 "engines": [{"name": "hv", "path": "/verif/harness", "serves_properties": [c["property_id"] for c in checks],
              "kind_free_text": "Rust harness that runs the real library under generated/hostile workloads with independent reference-model oracles, invariant hooks, fault-injecting streams and schedule control; verdicts from observed executions only"}],
 "checks": checks,
 "not_applicable": na,
 "notes": "Runtime monitoring only: every check executes the real library (built from /repo's working tree with the verif feature) and decides with an oracle over the observed executions. Exit 0 = held on everything explored, 1 = VIOLATION, 2 = inconclusive. Thorough tiers additionally repeat the quick workload in a plain release build, in an AddressSanitizer build and (selected small cases, six seeds) under Miri as undefined-behaviour monitor; C17 adds ThreadSanitizer (quick) and Miri (thorough). A process killed by a fatal signal inside library code is reported as a violation with the crashing case. Known findings: /verif/known_findings.json (all entries fixed). Seeded changes used to test the checks: /verif/seeded (160, eight rounds), hand-written mutants: /verif/mutants (36); DESIGN.md section 9 records which check catches which.",
}
json.dump(m, open(os.path.join(here, "MANIFEST.json"), "w"), indent=1)
print("checks:", len(checks), "not_applicable:", len(na))
