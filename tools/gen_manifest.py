#!/usr/bin/env python3
"""Generates /verif/MANIFEST.json from the table below (kept in one place so it stays valid)."""
import json, subprocess, os
here = os.path.dirname(os.path.dirname(os.path.abspath(__file__)))
props = [json.loads(l) for l in open(os.path.join(here, "properties.jsonl"))]
# id -> (level category, technique, level text, level note, design ref)
BUILT = {
 "C08": ("exploration", "reference-model monitor (u128 / big-integer oracle) over exhaustive small moduli + boundary/random workloads",
         "Every public word-level and multi-word primitive is executed on all moduli 2..127 with all operand pairs, on boundary moduli/operands of every bit size and on random multi-word operands of 1..8 words; each return value is compared with an independent u128/big-integer evaluation. Held on the executions observed; no claim beyond them.",
         "Trusted: rustc u128 arithmetic, the harness BigU (cross-checked against Python integers at setup). Domains as documented in the doc comments.", "DESIGN.md §3 C08"),
}
hook_commits = subprocess.check_output(["git", "-C", "/repo", "log", "--format=%H %s"]).decode().splitlines()
hooks = [l.split()[0] for l in hook_commits if l.split(" ", 1)[1].startswith("verif hooks")]
checks, na = [], []
for p in props:
    i = p["id"]
    if i in BUILT:
        cat, tech, text, note, ref = BUILT[i]
        checks.append({
            "property_id": i,
            "quick_cmd": f"./check {i} quick",
            "thorough_cmd": f"./check {i} thorough",
            "evidence_file": f"/verif/evidence/{i}.json",
            "replay_cmd_template": f"./check {i} --replay {{path}}",
            "engine": "hv",
            "level_claimed": {"category": cat, "text": text, "design_ref": ref},
            "level_note": note,
            "technique": tech,
        })
    else:
        na.append({"property_id": i, "reason": "monitor not built yet in this round (work in progress; see DESIGN.md for the planned check)"})
m = {
 "version": 1,
 "setup_cmd": "./setup.sh",
 "hooks": {
   "guard": "cargo feature `verif` of the heathcliff crate (off by default)",
   "enable": "the harness crate /verif/harness depends on heathcliff with features=[\"verif\"]; ./check builds it with cargo build --release --offline",
   "baseline_off_cmd": "cd /repo && cargo test --workspace --no-fail-fast --offline",
   "source_commits": hooks,
   "add_only": True,
 },
 "engines": [{"name": "hv", "path": "/verif/harness", "serves_properties": [c["property_id"] for c in checks],
              "kind_free_text": "Rust harness that runs the real library under generated/hostile workloads with independent reference-model oracles, invariant hooks, fault-injecting streams and schedule control; verdicts from observed executions only"}],
 "checks": checks,
 "not_applicable": na,
 "notes": "Runtime monitoring only: every check executes the real library (built from /repo's working tree with the verif feature) and decides with an oracle over the observed executions. Exit 0 = held on everything explored, 1 = VIOLATION, 2 = inconclusive. Known findings: /verif/known_findings.json.",
}
json.dump(m, open(os.path.join(here, "MANIFEST.json"), "w"), indent=1)
print("checks:", len(checks), "not_applicable:", len(na))
