#!/usr/bin/env bash
# tools/mutant_run.sh <patch-file> <Cxx> [tier] [--with-tests]
# Applies a patch to a scratch copy of /repo, builds the harness against it (cargo `paths` override),
# optionally runs the repo's own test-suite on the mutant, runs the check, prints its verdict, cleans up.
set -u
patch="$(realpath "$1")"; prop="$2"; tier="${3:-quick}"; with_tests="${4:-}"
work="$(mktemp -d /tmp/mut-XXXXXX)"
trap 'rm -rf "$work"' EXIT
rsync -a --exclude target --exclude .git /repo/ "$work/repo/"
if ! (cd "$work/repo" && patch -p1 -s < "$patch"); then echo "MUTANT $patch: patch does not apply"; exit 3; fi
export CARGO_NET_OFFLINE=true
if [ "$with_tests" = "--with-tests" ]; then
  if (cd "$work/repo" && CARGO_TARGET_DIR="$work/rt" cargo test --offline --lib >"$work/tests.log" 2>&1); then echo "MUTANT $(basename "$patch"): repo tests PASS (survives the suite)"; else echo "MUTANT $(basename "$patch"): repo tests FAIL (not a valid mutant)"; tail -5 "$work/tests.log"; fi
fi
export CARGO_TARGET_DIR="${MUT_TARGET:-/tmp/mut-target}"
if ! cargo build --release --offline --manifest-path /verif/harness/Cargo.toml --config "paths=[\"$work/repo\"]" >"$work/build.log" 2>&1; then echo "MUTANT $(basename "$patch"): does not compile"; tail -20 "$work/build.log"; exit 3; fi
if [ "${MUT_TSAN:-0}" = "1" ]; then
  if RUSTFLAGS="-Zsanitizer=thread" CARGO_TARGET_DIR="${MUT_TARGET_TSAN:-/tmp/mut-target-tsan}" cargo +nightly build -Zbuild-std --target x86_64-unknown-linux-gnu --release --offline --manifest-path /verif/harness/Cargo.toml --config "paths=[\"$work/repo\"]" >"$work/build-tsan.log" 2>&1; then
    export HV_TSAN_BIN="${MUT_TARGET_TSAN:-/tmp/mut-target-tsan}/x86_64-unknown-linux-gnu/release/hv"
  else echo "MUTANT: tsan build failed"; tail -5 "$work/build-tsan.log"; fi
else export HV_TSAN_BIN=/nonexistent; fi
mkdir -p "$work/out/target-tsan"; cp /verif/known_findings.json /verif/baseline_coverage.json "$work/out/" 2>/dev/null
VERIF_DIR="$work/out" timeout "${MUT_TIMEOUT:-900}" "$CARGO_TARGET_DIR/release/hv" "$prop" --tier "$tier" >"$work/run.log" 2>&1
code=$?
nsig=$(grep -c "^  signature:" "$work/run.log")
echo "MUTANT $(basename "$patch") on $prop/$tier: exit=$code signatures=$(grep '^  signature:' "$work/run.log" | sort -u | wc -l) violations_lines=$nsig"
grep "^  signature:" "$work/run.log" | sort | uniq -c | head -6
grep -E "SUMMARY|INCONCLUSIVE|HARNESS" "$work/run.log" | head -3
case $code in 132|134|135|136|139) echo "  (process killed by signal $((code-128)): ./check reports this as VIOLATION ...|process|killed_by_signal|crash)"; grep -E "^CRASH-CASE|memory allocation|overflowed" "$work/run.log" | head -3;; esac
exit 0
